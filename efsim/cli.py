"""efsim command line (thin; everything lives in efsim.driver so that no module is loaded twice)."""
import argparse
import os
import sys

sys.path.insert(0, os.path.dirname(os.path.dirname(os.path.abspath(__file__))))


def main():
    from efsim import driver
    ap = argparse.ArgumentParser(prog="efsim")
    sub = ap.add_subparsers(dest="cmd", required=True)
    c = sub.add_parser("check")
    c.add_argument("--property", required=True)
    c.add_argument("--tier", default=os.environ.get("VERIF_TIER") or "quick", choices=["quick", "thorough"])
    c.add_argument("--runs", type=int)
    c.add_argument("--nops", type=int)
    c.add_argument("--workers", type=int)
    r = sub.add_parser("replay")
    r.add_argument("path")
    s = sub.add_parser("selftest")
    s.add_argument("what", choices=["determinism", "sensitivity"])
    s.add_argument("--property", default="all")
    s.add_argument("--runs", type=int, default=64)
    a = ap.parse_args()
    seed = int(os.environ.get("VERIF_SEED") or "0")
    if a.cmd == "check":
        sys.exit(driver.check(a.property, a.tier, seed, a.runs, a.nops, a.workers))
    if a.cmd == "replay":
        sys.exit(driver.replay(a.path))
    if a.cmd == "selftest":
        from efsim import selftest
        sys.exit(getattr(selftest, a.what)(a.property, seed, a.runs))


if __name__ == "__main__":
    main()
