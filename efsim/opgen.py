"""Operation generator: (spec, private rng for op i, swarm config) -> one concrete op.

Reads only the spec (never the live world's iteration order), so the op list of a run is a pure function
of the run key and of the accept/raise outcomes recorded so far.
"""
from efsim import gen, spec as S
from efsim.gen import NUM_DEFAULTS, ZERO_OK, ALT_UNITS

NUMERIC_KINDS = ("q", "optq")


def by_cls(spec, classes, names=None):
    names = spec["order"] if names is None else names
    return [n for n in names if spec["objs"][n]["cls"] in classes]


def editable_numeric(spec, name):
    o = spec["objs"][name]
    out = []
    for a, v in o["attrs"].items():
        if v is not None and v[0] == "q" and a != "fixed_nb_of_instances":
            out.append(a)
    return out


def convert(mag, unit, new_unit):
    from efootprint.constants.units import u
    return float(u.Quantity(float(mag), unit).to(new_unit).magnitude)


def new_quantity(rng, cls, attr, cur, nice=False, allow_zero=True, spread=0.45):
    """A value of the same dimension as `cur`, physically different from it."""
    mag, unit = cur[1], cur[2]
    if allow_zero and attr in ZERO_OK and mag != 0 and rng.random() < 0.06:
        return ["q", 0.0, unit]
    if mag == 0:
        d = NUM_DEFAULTS.get(cls, {}).get(attr)
        base = d[0] if d else 1.0
        if d and d[1] != unit:
            try:
                base = convert(d[0], d[1], unit)
            except Exception:
                base = 1.0
        m = base * gen.factor(rng, spread)
    elif nice:
        m = mag * rng.choice([0.25, 0.5, 2, 3, 4])
    else:
        f = gen.factor(rng, spread)
        if abs(f - 1) < 0.02:
            f = 1.37
        m = mag * f
    if rng.random() < 0.15:
        base_unit = unit.replace(" ", "")
        alts = ALT_UNITS.get(base_unit)
        if alts:
            nu = rng.choice(alts)
            try:
                m = convert(m, unit, nu)
                unit = nu
            except Exception:
                pass
    if attr == "server_utilization_rate":
        m = min(max(m, 0.3), 1.0)
        if m == mag:
            m = 0.77 if mag != 0.77 else 0.66
    return ["q", float(m), unit]


def pick_obj(rng, spec, cands, closure_names, bias=0.85):
    inside = [n for n in cands if n in closure_names]
    if inside and (rng.random() < bias or len(inside) == len(cands)):
        return rng.choice(inside)
    return rng.choice(cands)


def gen_numeric(rng, spec, cfg, closure_names, i):
    cands = [n for n in spec["order"] if editable_numeric(spec, n)]
    if not cands:
        return None
    fixed = [n for n in spec["order"] if n in closure_names
             and (spec["objs"][n]["attrs"].get("fixed_nb_of_instances") or ["e"])[0] == "q"]
    if fixed and rng.random() < 0.04:
        # a user-defined number of instances raised (never lowered: that is a failing edit), possibly in percent
        name = rng.choice(fixed)
        cur = spec["objs"][name]["attrs"]["fixed_nb_of_instances"]
        mag = convert(cur[1], cur[2], "dimensionless") * rng.choice([1.5, 2.0, 3.0])
        v = ["q", mag * 100.0, "percent"] if rng.random() < 0.5 else ["q", mag, "dimensionless"]
        return {"op": "set", "obj": name, "attr": "fixed_nb_of_instances", "value": v, "src": rng.choice(gen.SOURCES),
                "label": f"fixed_nb_of_instances of {name} (edit {i})"}
    name = pick_obj(rng, spec, cands, closure_names)
    attr = rng.choice(editable_numeric(spec, name))
    cls = spec["objs"][name]["cls"]
    cur = spec["objs"][name]["attrs"][attr]
    v = new_quantity(rng, cls, attr, cur, cfg.get("nice_numbers", False))
    if attr in ("user_time_spent", "request_duration", "video_duration", "data_storage_duration") and rng.random() < 0.2:
        # durations around whole-hour boundaries (hour shifts, full hours of a request, dumps inside the period)
        v = ["q", float(rng.choice([59.0, 60.0, 61.0, 125.0, 30.0, 2.5, 190.0])), "min"]
    if attr == "request_duration" and v[1] == 0:
        v[1] = 0.5
    if attr == "data_stored" and cur[1] < 0:
        v[1] = -abs(v[1])
    return {"op": "set", "obj": name, "attr": attr, "value": v, "src": rng.choice(gen.SOURCES),
            "label": f"{attr} of {name} (edit {i})"}


def gen_categorical(rng, spec, cfg, closure_names, i):
    """server_type / timezone / resolution / technology / implementation_details / model_name / instance_type."""
    cands = []
    for n in spec["order"]:
        o = spec["objs"][n]
        for a, v in o["attrs"].items():
            if v is not None and v[0] in ("s", "tz") and a != "provider":
                cands.append((n, a))
    if not cands:
        return None
    inside = [c for c in cands if c[0] in closure_names]
    name, attr = rng.choice(inside if inside and rng.random() < 0.9 else cands)
    o = spec["objs"][name]
    cur = o["attrs"][attr]
    if attr == "timezone":
        choices = [["tz", z] for z in gen.ZONES]
    elif attr == "server_type":
        choices = [["s", t] for t in gen.SERVER_TYPES]
        fixed = o["attrs"].get("fixed_nb_of_instances")
        if fixed is not None and fixed[0] != "e":
            # leaving on-premise with a fixed count is refused by the library: do it as a grouped update
            target = rng.choice(["autoscaling", "serverless"])
            return {"op": "group", "changes": [
                {"obj": name, "attr": "server_type", "value": ["s", target], "label": f"Server type of {name} (edit {i})"},
                {"obj": name, "attr": "fixed_nb_of_instances", "value": ["e"]}]}
    elif attr == "resolution":
        choices = [["s", x] for x in gen.RESOLUTIONS[:5]]
    elif attr == "technology":
        choices = [["s", x] for x in gen.TECHNOLOGIES]
    elif attr == "implementation_details":
        choices = [["s", x] for x in gen.IMPL_DETAILS]
    elif attr == "model_name":
        choices = [["s", x] for x in gen.GENAI_MODELS[o["attrs"]["provider"][1]]]
    elif attr == "instance_type":
        choices = [["s", x] for x in gen.CLOUD_INSTANCES[o["attrs"]["provider"][1]]]
    else:
        return None
    choices = [c for c in choices if c != cur]
    # envelope: the packaged benchmark data has no row for (rust-actix-sqlx, mysql); that allowed combination makes
    # the look-up raise IndexError - generated as a recomputation fault (C15), not as an ordinary edit
    if attr == "implementation_details" and spec["objs"][o["attrs"]["service"][1]]["attrs"]["technology"][1] == "rust-actix-sqlx":
        choices = [c for c in choices if c[1] != "mysql"]
    if attr == "technology" and any(spec["objs"][m]["cls"] == "WebApplicationJob"
                                    and spec["objs"][m]["attrs"]["service"][1] == name
                                    and spec["objs"][m]["attrs"]["implementation_details"][1] == "mysql"
                                    for m in spec["order"]):
        choices = [c for c in choices if c[1] != "rust-actix-sqlx"]
    if not choices:
        return None
    return {"op": "set", "obj": name, "attr": attr, "value": rng.choice(choices), "src": rng.choice(gen.SOURCES),
            "label": f"{attr} of {name} (edit {i})"}


def gen_provider_switch(rng, spec, cfg, closure_names, i):
    """provider can only change together with a compatible model / instance type (grouped update)."""
    cands = by_cls(spec, ("GenAIModel", "BoaviztaCloudServer"))
    if not cands:
        return None
    name = rng.choice(cands)
    o = spec["objs"][name]
    table = gen.GENAI_MODELS if o["cls"] == "GenAIModel" else gen.CLOUD_INSTANCES
    dep = "model_name" if o["cls"] == "GenAIModel" else "instance_type"
    others = [p for p in sorted(table) if p != o["attrs"]["provider"][1]]
    if not others:
        return None
    prov = rng.choice(others)
    return {"op": "group", "changes": [
        {"obj": name, "attr": "provider", "value": ["s", prov], "label": f"provider of {name} (edit {i})"},
        {"obj": name, "attr": dep, "value": ["s", rng.choice(table[prov])], "label": f"{dep} of {name} (edit {i})"}]}


def gen_hourly(rng, spec, cfg, closure_names, i):
    ups = by_cls(spec, ("UsagePattern",))
    if not ups:
        return None
    name = pick_obj(rng, spec, ups, closure_names, 0.95)
    cur = spec["objs"][name]["attrs"]["hourly_usage_journey_starts"]
    n = len(cur[2])
    start = cur[1]
    if rng.random() < 0.3:
        start = gen.shift_start(start, rng.choice([-2, -1, 1, 5, 24]))
    vals = gen.series(rng, n, cfg.get("nice_numbers", False))
    if vals == cur[2]:
        vals[0] = vals[0] + 1.0
    return {"op": "set", "obj": name, "attr": "hourly_usage_journey_starts", "value": ["h", start, vals, cur[3]],
            "src": rng.choice(gen.SOURCES), "label": f"{name} hourly nb of visits (edit {i})"}


def server_choices(spec, for_cls):
    if for_cls == "GenAIModel":
        return by_cls(spec, ("GPUServer",))
    return by_cls(spec, ("Server", "BoaviztaCloudServer"))


def gen_link(rng, spec, cfg, closure_names, i):
    """Re-point a scalar link to another existing object of the accepted class."""
    cands = []
    for n in spec["order"]:
        o = spec["objs"][n]
        for a, v in o["attrs"].items():
            if v is not None and v[0] == "ref" and a != "storage":
                cands.append((n, a))
    rng.shuffle(cands)
    cands.sort(key=lambda c: c[0] not in closure_names)
    for name, attr in cands[:8]:
        o = spec["objs"][name]
        cur = o["attrs"][attr][1]
        if attr == "server":
            pool = server_choices(spec, o["cls"])
        elif attr == "service":
            pool = by_cls(spec, (S.SERVICE_OF_JOB[o["cls"]],))
        elif attr == "usage_journey":
            pool = by_cls(spec, ("UsageJourney",))
        elif attr == "network":
            pool = by_cls(spec, ("Network",))
        elif attr == "country":
            pool = by_cls(spec, ("Country",))
        else:
            continue
        pool = [p for p in pool if p != cur]
        if pool:
            return {"op": "set", "obj": name, "attr": attr, "value": ["ref", rng.choice(pool)]}
    return None


def gen_new_storage(rng, spec, cfg, closure_names, i):
    servers = by_cls(spec, S.SERVER_CLASSES)
    if not servers:
        return None
    srv = pick_obj(rng, spec, servers, closure_names)
    name = f"st_n{i}"
    attrs = {a: gen.qv(rng, "Storage", a, cfg.get("nice_numbers", False)) for a in NUM_DEFAULTS["Storage"]}
    attrs["fixed_nb_of_instances"] = ["e"]
    return {"op": "compound", "tag": "new_storage", "steps": [
        {"op": "create", "name": name, "cls": "Storage", "attrs": attrs},
        {"op": "set", "obj": srv, "attr": "storage", "value": ["ref", name]}]}


LIST_ATTRS = {"UsageJourneyStep": ("jobs", S.JOB_CLASSES), "UsageJourney": ("uj_steps", ("UsageJourneyStep",)),
              "UsagePattern": ("devices", ("Device",))}


def list_cands(spec):
    return [n for n in spec["order"] if spec["objs"][n]["cls"] in LIST_ATTRS]


def gen_list_assign(rng, spec, cfg, closure_names, i):
    cands = list_cands(spec)
    if not cands:
        return None
    name = pick_obj(rng, spec, cands, closure_names)
    attr, elt_classes = LIST_ATTRS[spec["objs"][name]["cls"]]
    cur = list(spec["objs"][name]["attrs"][attr][1])
    pool = by_cls(spec, elt_classes)
    mode = rng.choice(["perm", "drop", "add", "replace", "dup"])
    new = list(cur)
    if mode == "perm" and len(cur) > 1:
        rng.shuffle(new)
    elif mode == "drop" and len(cur) > 0:
        new.pop(rng.randrange(len(new)))
    elif mode == "add" and pool:
        new.insert(rng.randint(0, len(new)), rng.choice(pool))
    elif mode == "replace" and pool:
        new = [rng.choice(pool) for _ in range(rng.randint(0, 3))]
    elif mode == "dup" and cur:
        new.append(rng.choice(cur))
    if attr == "devices" and not new:
        new = [rng.choice(pool)]
    if new == cur:
        if pool:
            new = cur + [rng.choice(pool)]
        else:
            return None
    return {"op": "set", "obj": name, "attr": attr, "value": ["refs", new]}


def gen_assign_slice(rng, spec, cfg, closure_names, i):
    """obj.attr = obj.attr[a:b] + [...]: slicing reads feeding an assignment (upstream's own idiom)."""
    cands = list_cands(spec)
    if not cands:
        return None
    name = pick_obj(rng, spec, cands, closure_names)
    attr, elt_classes = LIST_ATTRS[spec["objs"][name]["cls"]]
    cur = list(spec["objs"][name]["attrs"][attr][1])
    pool = by_cls(spec, elt_classes)
    start, stop = rng.choice([(None, -1), (1, None), (None, None), (0, 1), (None, 0), (-1, None)])
    plus = [rng.choice(pool) for _ in range(rng.choice([0, 0, 1, 2]))] if pool else []
    new = cur[start:stop] + plus
    if attr == "devices" and not new:
        return None
    return {"op": "assign_slice", "obj": name, "attr": attr, "start": start, "stop": stop, "plus": plus}


def gen_list_op(rng, spec, cfg, closure_names, i, include_system=False):
    cands = list_cands(spec)
    if not cands:
        return None
    name = pick_obj(rng, spec, cands, closure_names)
    attr, elt_classes = LIST_ATTRS[spec["objs"][name]["cls"]]
    cur = list(spec["objs"][name]["attrs"][attr][1])
    pool = by_cls(spec, elt_classes)
    methods = ["append", "insert", "extend", "iadd"]
    if len(cur) > 1:
        methods += ["reverse", "sort", "alias_append2"]
    if cur:
        methods += ["pop", "remove", "delitem", "setitem"]
        if attr != "devices":
            methods += ["clear", "imul"]
    m = rng.choice(methods)
    if len(cur) > 1 and rng.random() < 0.3:
        m = rng.choice(["reverse", "sort", "alias_append2"])
    op = {"op": "list", "obj": name, "attr": attr, "method": m}
    if m == "alias_append2":
        # two appends through one reference to the list (`l = step.jobs; l.append(a); l.append(b)`)
        op["args"] = [rng.choice(pool), rng.choice(pool)]
    elif m == "append":
        op["args"] = [rng.choice(pool)]
    elif m == "insert":
        op["args"] = [rng.randint(0, len(cur)), rng.choice(pool)]
    elif m in ("extend", "iadd"):
        op["args"] = [[rng.choice(pool) for _ in range(rng.randint(1, 2))]]
    elif m == "imul":
        op["args"] = [2]
    elif m == "pop":
        if attr == "devices" and len(cur) == 1:
            return None
        op["args"] = [] if rng.random() < 0.5 else [rng.randrange(len(cur))]
    elif m == "remove":
        if attr == "devices" and len(cur) == 1:
            return None
        op["args"] = [rng.choice(cur)]
        op["by"] = "wrapper"
    elif m == "delitem":
        if attr == "devices" and len(cur) == 1:
            return None
        op["args"] = [rng.randrange(len(cur))]
    elif m == "setitem":
        op["args"] = [rng.randrange(len(cur)), rng.choice(pool)]
    return op


def new_job_attrs(rng, spec, cfg):
    servers = by_cls(spec, ("Server", "BoaviztaCloudServer"))
    if not servers:
        return None
    a = {k: gen.qv(rng, "Job", k, cfg.get("nice_numbers", False)) for k in NUM_DEFAULTS["Job"]}
    a["server"] = ["ref", rng.choice(servers)]
    return a


def gen_add_job(rng, spec, cfg, closure_names, i):
    steps = by_cls(spec, ("UsageJourneyStep",))
    a = new_job_attrs(rng, spec, cfg)
    if not steps or a is None:
        return None
    step = pick_obj(rng, spec, steps, closure_names)
    name = f"j_n{i}"
    how = rng.choice(["iadd", "append", "assign"])
    cur = list(spec["objs"][step]["attrs"]["jobs"][1])
    if how == "assign":
        link = {"op": "set", "obj": step, "attr": "jobs", "value": ["refs", cur + [name]]}
    else:
        link = {"op": "list", "obj": step, "attr": "jobs", "method": how,
                "args": [[name]] if how == "iadd" else [name]}
    return {"op": "compound", "tag": "add_job", "steps": [{"op": "create", "name": name, "cls": "Job", "attrs": a}, link]}


def gen_add_step(rng, spec, cfg, closure_names, i):
    ujs = by_cls(spec, ("UsageJourney",))
    jobs = by_cls(spec, S.JOB_CLASSES)
    if not ujs:
        return None
    uj = pick_obj(rng, spec, ujs, closure_names)
    name = f"step_n{i}"
    mine = [rng.choice(jobs) for _ in range(rng.choice([0, 1, 2]))] if jobs else []
    a = {"user_time_spent": gen.qv(rng, "UsageJourneyStep", "user_time_spent", cfg.get("nice_numbers", False), 1.0),
         "jobs": ["refs", mine]}
    cur = list(spec["objs"][uj]["attrs"]["uj_steps"][1])
    how = rng.choice(["iadd", "append", "insert"])
    if how == "insert":
        link = {"op": "list", "obj": uj, "attr": "uj_steps", "method": "insert", "args": [rng.randint(0, len(cur)), name]}
    else:
        link = {"op": "list", "obj": uj, "attr": "uj_steps", "method": how, "args": [[name]] if how == "iadd" else [name]}
    return {"op": "compound", "tag": "add_step", "steps": [
        {"op": "create", "name": name, "cls": "UsageJourneyStep", "attrs": a}, link]}


def gen_add_up(rng, spec, cfg, closure_names, i):
    ujs = by_cls(spec, ("UsageJourney",))
    devs = by_cls(spec, ("Device",))
    nets = by_cls(spec, ("Network",))
    cs = by_cls(spec, ("Country",))
    ups = by_cls(spec, ("UsagePattern",))
    if not (ujs and devs and nets and cs and ups):
        return None
    if len(spec["objs"]["sys"]["attrs"]["usage_patterns"][1]) >= 4:
        return None
    ref = spec["objs"][rng.choice(ups)]["attrs"]["hourly_usage_journey_starts"]
    start = ref[1] if rng.random() < 0.6 else gen.shift_start(ref[1], rng.choice([-7, -1, 2, 25]))
    name = f"up_n{i}"
    steps = []
    country = rng.choice(cs)
    if rng.random() < 0.4:
        country = f"c_n{i}"
        ca = {"average_carbon_intensity": gen.qv(rng, "Country", "average_carbon_intensity"),
              "short_name": ["str", f"N{i}"], "timezone": ["tz", rng.choice(gen.ZONES)]}
        steps.append({"op": "create", "name": country, "cls": "Country", "attrs": ca})
    network = rng.choice(nets)
    if rng.random() < 0.4:
        network = f"net_n{i}"
        steps.append({"op": "create", "name": network, "cls": "Network",
                      "attrs": {"bandwidth_energy_intensity": gen.qv(rng, "Network", "bandwidth_energy_intensity")}})
    a = {"usage_journey": ["ref", rng.choice(ujs)], "devices": ["refs", [rng.choice(devs)]],
         "network": ["ref", network], "country": ["ref", country],
         "hourly_usage_journey_starts": ["h", start, gen.series(rng, len(ref[2]), cfg.get("nice_numbers", False)), ref[3]]}
    steps.append({"op": "create", "name": name, "cls": "UsagePattern", "attrs": a})
    how = rng.choice(["iadd", "append", "assign"])
    cur = list(spec["objs"]["sys"]["attrs"]["usage_patterns"][1])
    if how == "assign":
        steps.append({"op": "set", "obj": "sys", "attr": "usage_patterns", "value": ["refs", cur + [name]]})
    else:
        steps.append({"op": "list", "obj": "sys", "attr": "usage_patterns", "method": how,
                      "args": [[name]] if how == "iadd" else [name]})
    return {"op": "compound", "tag": "add_up", "steps": steps}


def gen_remove_up(rng, spec, cfg, closure_names, i):
    cur = list(spec["objs"]["sys"]["attrs"]["usage_patterns"][1])
    if len(cur) < 2:
        return None
    victim = rng.choice(cur)
    new = [n for n in cur if n != victim]
    if rng.random() < 0.5:
        rng.shuffle(new)
    return {"op": "compound", "tag": "remove_up", "steps": [
        {"op": "set", "obj": "sys", "attr": "usage_patterns", "value": ["refs", new]},
        {"op": "delete", "obj": victim}]}


def gen_permute_ups(rng, spec, cfg, closure_names, i):
    cur = list(spec["objs"]["sys"]["attrs"]["usage_patterns"][1])
    if len(cur) < 2:
        return None
    new = list(cur)
    while new == cur:
        rng.shuffle(new)
    return {"op": "set", "obj": "sys", "attr": "usage_patterns", "value": ["refs", new]}


def gen_group(rng, spec, cfg, closure_names, i):
    n = rng.randint(2, 4)
    changes, seen = [], set()
    for j in range(n * 3):
        sub = rng.choice([gen_numeric, gen_numeric, gen_hourly, gen_link, gen_list_assign])(
            rng, spec, cfg, closure_names, i)
        if sub is None or sub["op"] != "set":
            continue
        key = (sub["obj"], sub["attr"])
        if key in seen:
            continue
        seen.add(key)
        ch = {k: v for k, v in sub.items() if k != "op"}
        changes.append(ch)
        if len(changes) == n:
            break
    if len(changes) < 2:
        return None
    return {"op": "group", "changes": changes}


def gen_noop(rng, spec, cfg, closure_names, i):
    cands = [(n, a) for n in spec["order"] for a, v in spec["objs"][n]["attrs"].items()
             if v is not None and v[0] in ("q", "refs", "ref", "h") and n in closure_names
             and not (v[0] == "refs" and spec["objs"][n]["cls"] == "System")]
    if not cands:
        return None
    name, attr = rng.choice(cands)
    return {"op": "noop", "obj": name, "attr": attr}


def gen_delete_free(rng, spec, cfg, closure_names, i):
    """self_delete of an object nothing references any more (upstream: remove from the list, then self_delete)."""
    free = [n for n in spec["order"] if spec["objs"][n]["cls"] not in ("System", "UsagePattern")
            and not S.users_of(spec, n)]
    if not free:
        return None
    return {"op": "delete", "obj": rng.choice(free)}


def gen_install_service(rng, spec, cfg, closure_names, i, refused=None):
    """A new service installed on a server of the system, used by no job (yet)."""
    servers = [n for n in by_cls(spec, ("Server", "BoaviztaCloudServer")) if n in closure_names]
    if not servers:
        return None
    name = f"svc_n{i}"
    if (rng.random() < 0.35) if refused is None else refused:
        # natural fault: a service that does not fit on a server of the computed system. Its construction is refused
        # while the server is being recomputed (Service.after_init); the model has to stay exactly what it was.
        attrs = {"server": ["ref", rng.choice(servers)]}
        attrs.update({a: gen.qv(rng, "VideoStreaming", a, False, 0.1) for a in NUM_DEFAULTS.get("VideoStreaming", {})})
        attrs["base_ram_consumption"] = ["q", float(rng.choice([1e5, 3e6])), "GB"]
        return {"op": "refused_create", "tag": "install_service_refused", "name": name, "cls": "VideoStreaming",
                "attrs": attrs}
    cls = rng.choice(["WebApplication", "VideoStreaming"])
    attrs = {"server": ["ref", rng.choice(servers)]}
    if cls == "WebApplication":
        attrs["technology"] = ["s", rng.choice(["php-symfony", "go-pgx", "python-django"])]
    else:
        attrs.update({a: gen.qv(rng, "VideoStreaming", a, False, 0.1) for a in NUM_DEFAULTS.get("VideoStreaming", {})})
        attrs["base_ram_consumption"] = ["q", float(rng.choice([0.5, 1.0, 2.0])), "GB"]
    return {"op": "compound", "tag": "install_service", "steps": [{"op": "create", "name": name, "cls": cls, "attrs": attrs}]}


def gen_derived_input(rng, spec, cfg, closure_names, i):
    """An input set to a quantity computed from another input of the model (`job2.data_stored = job.data_stored * 2`)."""
    pairs = []
    for n in spec["order"]:
        if n not in closure_names:
            continue
        for a in editable_numeric(spec, n):
            for m in spec["order"]:
                if m != n and m in closure_names and spec["objs"][m]["cls"] == spec["objs"][n]["cls"] \
                        and (spec["objs"][m]["attrs"].get(a) or ["e"])[0] == "q" and a != "server_utilization_rate":
                    pairs.append((n, a, m))
    if not pairs:
        return None
    n, a, m = rng.choice(pairs)
    f = rng.choice([0.5, 2.0, 3.0])
    src = spec["objs"][m]["attrs"][a]
    return {"op": "set", "obj": n, "attr": a, "value": ["q", src[1] * f, src[2]], "derived_from": [m, a, f],
            "label": f"{a} of {n} derived from {m} (edit {i})"}


EDIT_MIX = [
    (gen_numeric, 34), (gen_categorical, 8), (gen_provider_switch, 2), (gen_hourly, 7), (gen_link, 10),
    (gen_new_storage, 2), (gen_list_assign, 8), (gen_assign_slice, 3), (gen_list_op, 10), (gen_group, 6), (gen_add_job, 4),
    (gen_add_step, 3), (gen_add_up, 3), (gen_remove_up, 2), (gen_permute_ups, 2), (gen_noop, 2), (gen_delete_free, 2),
    (gen_install_service, 2), (gen_derived_input, 2),
]


def neighbourhood(spec, names):
    """The named objects plus the objects they reference and the objects that reference them (two rings)."""
    out = set(n for n in names if n in spec["objs"])
    for _ in range(2):
        ring = set()
        for n in out:
            ring.update(d for d in S.deps_of(spec["objs"][n]) if d in spec["objs"])
            ring.update(u for u, _a in S.users_of(spec, n))
        out |= ring
    return out


def gen_edit(rng, spec, cfg, i, mix=None, focus=None):
    """`focus`: names touched by the last operations.  A third of the time the next operation is drawn in their
    neighbourhood, so that histories contain *dependent* sequences (an edit upstream or downstream of what has just
    been re-linked or recomputed) far more often than uniform drawing would give."""
    mix = mix or EDIT_MIX
    closure_names = set(S.closure(spec))
    if focus and rng.random() < 0.2:
        # follow-up: edit one input (numeric, categorical or hourly, drawn uniformly over the object's inputs) of an
        # object that one of the last operations touched
        objs = [n for n in dict.fromkeys(reversed(focus)) if n in spec["objs"]][:3]
        pairs = [(n, a) for n in objs for a, v in spec["objs"][n]["attrs"].items()
                 if v is not None and v[0] in ("q", "s", "tz", "h") and a not in ("provider", "fixed_nb_of_instances")]
        if pairs:
            n, a = rng.choice(pairs)
            kind = spec["objs"][n]["attrs"][a][0]
            for _ in range(6):
                try:
                    sub = {"q": gen_numeric, "h": gen_hourly}.get(kind, gen_categorical)(rng, spec, cfg, {n}, i)
                except (IndexError, ValueError, KeyError):
                    sub = None
                if sub is not None and sub.get("obj") == n and sub.get("attr") == a:
                    sub["i"] = i
                    return sub
    if focus and rng.random() < 0.35:
        near = neighbourhood(spec, focus) & closure_names
        if near:
            closure_names = near
    total = sum(w for _, w in mix)
    for _ in range(12):
        x = rng.uniform(0, total)
        for fn, w in mix:
            x -= w
            if x <= 0:
                break
        try:
            op = fn(rng, spec, cfg, closure_names, i)
        except (IndexError, ValueError, KeyError):
            # a pool this generator draws from is empty in the current spec (long histories delete objects)
            op = None
        if op is not None:
            op["i"] = i
            return op
    return {"op": "noop", "obj": "sys", "attr": "usage_patterns", "i": i}


# ---------------------------------------------------------------------------------------------------
# C16: link-operation histories, including no-op, duplicate, absent and out-of-range forms

def gen_list_op_wild(rng, spec, cfg, closure_names, i):
    """Any list-mutating call, with present / absent / duplicate / no-op / out-of-range arguments."""
    cands = list_cands(spec)
    if not cands:
        return None
    name = pick_obj(rng, spec, cands, closure_names, 0.9)
    # a list emptied in place earlier in the history (clear, *= 0, pops, del) is mutated in place again half of the
    # time: whatever state the emptying call left in the list object itself is then exercised
    emptied = [n for n in cands if not spec["objs"][n]["attrs"][LIST_ATTRS[spec["objs"][n]["cls"]][0]][1]]
    refill = None
    if emptied and rng.random() < 0.5:
        name = rng.choice(emptied)
        refill = rng.choice(["append", "extend", "iadd", "insert"])
    attr, elt_classes = LIST_ATTRS[spec["objs"][name]["cls"]]
    cur = list(spec["objs"][name]["attrs"][attr][1])
    pool = by_cls(spec, elt_classes)
    absent = [p for p in pool if p not in cur]
    m = rng.choice(["append", "insert", "extend", "iadd", "imul", "pop", "remove", "delitem", "setitem", "clear",
                    "extend", "iadd", "imul", "remove", "pop", "extend_self", "iadd_self", "extend_from", "delslice",
                    "setslice", "reverse", "sort"])
    if refill is not None:
        m = refill
    dups = sorted({x for x in cur if cur.count(x) > 1})
    if dups and rng.random() < 0.4:
        # an element held several times: removing / popping / deleting one occurrence must leave the others
        m = rng.choice(["remove", "remove", "pop", "delitem"])
    op = {"op": "list", "obj": name, "attr": attr, "method": m}
    keep_one = attr == "devices"
    if dups and m == "remove":
        op["args"] = [rng.choice(dups)]
        op["by"] = rng.choice(["wrapper", "object"])
        if rng.random() < 0.4:
            op["alias"] = "use"
        return op
    if m == "extend_from":
        others = [n for n in cands if spec["objs"][n]["cls"] == spec["objs"][name]["cls"]]
        op["args"] = [rng.choice(others), attr]
    elif m == "delslice":
        a = rng.choice([0, 0, 1, len(cur), -1])
        b = rng.choice([a, a + 1, len(cur), len(cur) + 3, -1])
        if keep_one and len(cur[:a] + cur[b:] if (a >= 0 and b >= 0) else []) < 1:
            a, b = len(cur), len(cur) + 2
        op["args"] = [a, b]
    elif m == "setslice":
        a = rng.choice([0, 1, len(cur)])
        op["args"] = [a, rng.choice([a, a + 1, len(cur)]), [rng.choice(pool) for _ in range(rng.choice([0, 1, 2]))]]
        if keep_one and not op["args"][2]:
            op["args"][2] = [rng.choice(pool)]
    if m == "append":
        op["args"] = [rng.choice(cur if cur and rng.random() < 0.3 else pool)]
    elif m == "insert":
        op["args"] = [rng.choice([0, len(cur), rng.randint(0, len(cur)), -1, len(cur) + 5]),
                      rng.choice(cur if cur and rng.random() < 0.3 else pool)]
    elif m in ("extend", "iadd"):
        n = rng.choice([0, 0, 1, 2])
        op["args"] = [[rng.choice(pool) for _ in range(n)]]
    elif m == "imul":
        op["args"] = [rng.choice([1, 1, 2, 3] if keep_one else [0, 0, -1, 1, 1, 2, 3])]
    elif m == "pop":
        choices = [[]]
        if cur:
            choices += [[rng.randrange(len(cur))], [-1]]
        choices += [[len(cur) + 2]]
        op["args"] = rng.choice(choices)
        if keep_one and len(cur) <= 1 and op["args"] != [len(cur) + 2]:
            op["args"] = [len(cur) + 2]
    elif m == "remove":
        if cur and rng.random() < 0.7 and not (keep_one and len(cur) <= 1):
            op["args"] = [rng.choice(cur)]
        elif absent:
            op["args"] = [rng.choice(absent)]
        else:
            return None
        op["by"] = rng.choice(["wrapper", "object"])
    elif m == "delitem":
        if cur and rng.random() < 0.7 and not (keep_one and len(cur) <= 1):
            op["args"] = [rng.choice([rng.randrange(len(cur)), -1])]
        else:
            op["args"] = [len(cur) + 1]
    elif m == "setitem":
        if cur and rng.random() < 0.8:
            idx = rng.randrange(len(cur))
            op["args"] = [idx, cur[idx] if rng.random() < 0.3 else rng.choice(pool)]
        else:
            op["args"] = [len(cur) + 1, rng.choice(pool)]
    elif m == "clear":
        if keep_one:
            return None
    if rng.random() < 0.4:
        op["alias"] = "use"
    return op


def gen_assign_equal(rng, spec, cfg, closure_names, i):
    """Assign an equal list, the very same list object, or the same scalar target."""
    cands = [(n, a) for n in spec["order"] for a, v in spec["objs"][n]["attrs"].items()
             if v is not None and v[0] in ("refs", "ref") and spec["objs"][n]["cls"] != "System"]
    if not cands:
        return None
    name, attr = rng.choice(cands)
    v = spec["objs"][name]["attrs"][attr]
    if v[0] == "refs" and rng.random() < 0.5:
        return {"op": "assign_self", "obj": name, "attr": attr}
    return {"op": "noop", "obj": name, "attr": attr}


def gen_delete(rng, spec, cfg, closure_names, i):
    """self_delete of a referenced object (must be refused) or of an unreferenced one (must succeed)."""
    cands = [n for n in spec["order"] if spec["objs"][n]["cls"] not in ("System",)]
    if not cands:
        return None
    referenced = [n for n in cands if S.users_of(spec, n)]
    free = [n for n in cands if not S.users_of(spec, n) and spec["objs"][n]["cls"] != "UsagePattern"]
    if free and rng.random() < 0.5:
        return {"op": "delete", "obj": rng.choice(free)}
    if referenced:
        return {"op": "delete", "obj": rng.choice(referenced), "expect": "refused"}
    return None


def gen_second_system_indirect(rng, spec, cfg, closure_names, i):
    """A second System over a brand-new usage pattern / journey / step / job chain that shares exactly one object
    (a server, a network, a country or a device) with the first system: must be refused."""
    ups = list(spec["objs"]["sys"]["attrs"]["usage_patterns"][1])
    if not ups:
        return None
    src = spec["objs"][rng.choice(ups)]["attrs"]
    servers = [n for n in by_cls(spec, ("Server", "BoaviztaCloudServer")) if n in closure_names]
    shared = rng.choice(["server", "network", "country", "device"])
    if shared == "server" and not servers:
        shared = "network"
    steps, nice = [], cfg.get("nice_numbers", False)
    if shared == "server":
        server = rng.choice(servers)
    else:
        st, server = f"st_x{i}", f"srv_x{i}"
        a = {k: gen.qv(rng, "Storage", k, nice) for k in NUM_DEFAULTS["Storage"]}
        a["fixed_nb_of_instances"] = ["e"]
        steps.append({"op": "create", "name": st, "cls": "Storage", "attrs": a})
        a = {k: gen.qv(rng, "Server", k, nice) for k in NUM_DEFAULTS["Server"]}
        a.update({"server_type": ["s", "autoscaling"], "fixed_nb_of_instances": ["e"], "storage": ["ref", st]})
        steps.append({"op": "create", "name": server, "cls": "Server", "attrs": a})
    ja = {k: gen.qv(rng, "Job", k, nice) for k in NUM_DEFAULTS["Job"]}
    ja["server"] = ["ref", server]
    steps.append({"op": "create", "name": f"j_x{i}", "cls": "Job", "attrs": ja})
    steps.append({"op": "create", "name": f"step_x{i}", "cls": "UsageJourneyStep", "attrs": {
        "user_time_spent": gen.qv(rng, "UsageJourneyStep", "user_time_spent", nice), "jobs": ["refs", [f"j_x{i}"]]}})
    steps.append({"op": "create", "name": f"uj_x{i}", "cls": "UsageJourney", "attrs": {"uj_steps": ["refs", [f"step_x{i}"]]}})
    network, country, device = src["network"][1], src["country"][1], src["devices"][1][0]
    if shared != "network":
        network = f"net_x{i}"
        steps.append({"op": "create", "name": network, "cls": "Network",
                      "attrs": {"bandwidth_energy_intensity": gen.qv(rng, "Network", "bandwidth_energy_intensity")}})
    if shared != "country":
        country = f"c_x{i}"
        steps.append({"op": "create", "name": country, "cls": "Country", "attrs": {
            "average_carbon_intensity": gen.qv(rng, "Country", "average_carbon_intensity"),
            "short_name": ["str", f"X{i}"], "timezone": ["tz", rng.choice(gen.ZONES)]}})
    if shared != "device":
        device = f"dev_x{i}"
        steps.append({"op": "create", "name": device, "cls": "Device",
                      "attrs": {k: gen.qv(rng, "Device", k, nice) for k in NUM_DEFAULTS["Device"]}})
    h = src["hourly_usage_journey_starts"]
    up = {"name": f"up_x{i}", "attrs": {"usage_journey": ["ref", f"uj_x{i}"], "devices": ["refs", [device]],
                                         "network": ["ref", network], "country": ["ref", country],
                                         "hourly_usage_journey_starts": ["h", h[1], list(h[2]), h[3]]}}
    return {"op": "second_system", "name": f"sys_n{i}", "new_up": up, "before": steps, "shared": shared}


def gen_second_system(rng, spec, cfg, closure_names, i):
    ups = list(spec["objs"]["sys"]["attrs"]["usage_patterns"][1])
    if not ups:
        return None
    if rng.random() < 0.5:
        return gen_second_system_indirect(rng, spec, cfg, closure_names, i)
    mode = rng.choice(["same_up", "new_up_shared_objects"])
    if mode == "same_up":
        return {"op": "second_system", "name": f"sys_n{i}", "ups": [rng.choice(ups)]}
    src = spec["objs"][rng.choice(ups)]["attrs"]
    a = {k: (list(v) if k != "devices" else ["refs", list(v[1])]) for k, v in src.items()}
    return {"op": "second_system", "name": f"sys_n{i}", "new_up": {"name": f"up_x{i}", "attrs": a}}


def gen_cross_system(rng, spec, cfg, closure_names, i):
    """Clone the system (disjoint copy), then try a link edit that would share an object between the two systems."""
    names = [n for n in spec["order"] if n in closure_names]
    sfx = f"_b{i}"
    cls = {n: spec["objs"][n]["cls"] for n in names}
    cands = []
    for n in names:
        c = cls[n]
        if c == "System":
            cands += [(n + sfx, "usage_patterns", m, u) for u in names if cls[u] == "UsagePattern" for m in ("append", "iadd", "assign_list")]
        elif c == "UsagePattern":
            for a, k in (("network", "Network"), ("country", "Country"), ("usage_journey", "UsageJourney")):
                cands += [(n + sfx, a, "set", u) for u in names if cls[u] == k]
            cands += [(n + sfx, "devices", m, u) for u in names if cls[u] == "Device" for m in ("append", "assign_list")]
        elif c == "UsageJourney":
            cands += [(n + sfx, "uj_steps", m, u) for u in names if cls[u] == "UsageJourneyStep" for m in ("append", "iadd")]
        elif c == "UsageJourneyStep":
            cands += [(n + sfx, "jobs", m, u) for u in names if cls[u] in S.JOB_CLASSES for m in ("append", "assign_list")]
        elif c == "Job":
            cands += [(n + sfx, "server", "set", u) for u in names if cls[u] in ("Server", "BoaviztaCloudServer")]
        elif c in S.SERVICE_OF_JOB:
            cands += [(n + sfx, "service", "set", u) for u in names if cls[u] == S.SERVICE_OF_JOB[c]]
    if not cands:
        return None
    target, attr, method, arg = rng.choice(cands)
    reverse = rng.random() < 0.5
    if reverse:
        # the other direction: an object of the first system - whose lists and links carry the whole history of the
        # run - receives an object of the copy; lists emptied in place earlier in the history are preferred
        emptied = [c for c in cands if c[2] != "set" and not spec["objs"][c[0][:-len(sfx)]]["attrs"][c[1]][1]]
        if emptied and rng.random() < 0.7:
            target, attr, method, arg = rng.choice(emptied)
        target, arg = target[:-len(sfx)], arg + sfx
    if method != "set" and rng.random() < 0.5:
        # the offending object in front of the others (not the last newly linked one)
        method = rng.choice(["insert0", "setitem0", "assign_list_front"])
    op = {"op": "cross_system", "suffix": sfx, "target": target, "attr": attr, "method": method, "arg": arg}
    if reverse:
        op["reverse"] = True
        if (method != "set" and attr in ("jobs", "uj_steps") and spec["objs"][target]["attrs"][attr][1]
                and rng.random() < 0.5):
            # preparatory accepted edit: the receiving list is first emptied in place, then refilled across systems
            how = rng.choice([("imul", [0]), ("imul", [-1]), ("clear", [])])
            op["prep"] = {"op": "list", "obj": target, "attr": attr, "method": how[0], "args": how[1]}
        return op
    if rng.random() < 0.4 and cls[arg] in ("UsagePattern", "UsageJourney", "UsageJourneyStep") + tuple(S.JOB_CLASSES):
        # indirect: not the object of the first system itself, but a fresh copy of it (same links, no system yet)
        op["fresh_copy_of"] = arg
        op["arg"] = f"fresh_{i}"
    return op


C16_MIX = [
    (gen_list_op_wild, 40), (gen_list_assign, 10), (gen_assign_slice, 6), (gen_assign_equal, 8), (gen_link, 12), (gen_new_storage, 2),
    (gen_add_job, 5), (gen_add_step, 4), (gen_add_up, 4), (gen_remove_up, 3), (gen_permute_ups, 2),
    (gen_delete, 6), (gen_second_system, 4), (gen_cross_system, 3),
]


# ---------------------------------------------------------------------------------------------------
# C05: what-if simulations

def modelled_period(spec):
    """[(usage pattern, zone, first local hour, number of hours)] for the usage patterns of the system."""
    out = []
    for up in spec["objs"]["sys"]["attrs"]["usage_patterns"][1]:
        a = spec["objs"][up]["attrs"]
        h = a["hourly_usage_journey_starts"]
        zone = spec["objs"][a["country"][1]]["attrs"]["timezone"][1]
        out.append((up, zone, h[1], len(h[2])))
    return out


def simulation_date(rng, spec, kind=None):
    import pytz
    from datetime import datetime, timedelta
    periods = modelled_period(spec)
    if not periods:
        return None, "none"
    up, zone, start, n = rng.choice(periods)
    kind = kind or rng.choice(["first", "interior", "interior", "interior", "last", "before", "after", "far", "naive"])
    t0 = datetime.strptime(start, "%Y-%m-%d %H:%M:%S")
    off = {"first": 0, "interior": rng.randint(1, max(1, n - 2)), "last": n - 1, "before": -30, "after": n + 30,
           "far": 24 * 400, "naive": rng.randint(0, n - 1)}[kind]
    t = t0 + timedelta(hours=off)
    if kind == "naive":
        return t.isoformat(), kind
    tz = gen.timezone_of(zone)
    aware = tz.localize(t, is_dst=True) if hasattr(tz, "localize") else t.replace(tzinfo=tz)
    return aware.isoformat(), kind


def gen_simulate(rng, spec, cfg, closure_names, i, extra_changes=None, date_kind=None):
    changes, seen = [], set()
    n = rng.choice([1, 1, 2, 3])
    for _ in range(n * 4):
        fn = rng.choice([gen_numeric, gen_numeric, gen_numeric, gen_hourly, gen_link, gen_list_assign, gen_categorical])
        sub = fn(rng, spec, cfg, closure_names, i)
        if sub is None or sub["op"] != "set":
            continue
        if sub["obj"] not in closure_names and rng.random() < 0.9:
            continue
        key = (sub["obj"], sub["attr"])
        if key in seen:
            continue
        seen.add(key)
        changes.append({k: v for k, v in sub.items() if k != "op"})
        if len(changes) == n:
            break
    if extra_changes:
        pos = rng.randint(0, len(changes))
        changes[pos:pos] = extra_changes
    if not changes:
        return None
    date, kind = simulation_date(rng, spec, date_kind)
    if date is None:
        return None
    toggles = [rng.choice(["set", "reset"]) for _ in range(rng.choice([0, 0, 1, 2, 3, 4, 6]))]
    # read-side traffic between the toggles (while the simulated values are on or off)
    reads = [rng.choice([None, None, "explain", "str", "sums", "to_json", "plot_values"]) for _ in toggles]
    targets = sorted(closure_names)
    read_targets = [[rng.choice(targets) for _ in range(2)] if targets else [] for _ in toggles]
    return {"op": "simulate", "changes": changes, "date": date, "date_kind": kind, "toggles": toggles, "reads": reads,
            "read_targets": read_targets, "i": i}
