#!/bin/bash
# usage: tools/ingest_seed.sh <src dir (agent worktree)> <property> <seed id> <needs> <breaks> [written_by]
# confirm in a fresh worktree, store under seeded/<id>/, run the target property's quick check against it
src=$1; prop=$2; sid=$3; needs=$4; breaks=$5; by=${6:-"sub-agent given only the property text, a scratch worktree of /repo HEAD and a list of code areas already used"}
out=$(/verif/tools/confirm_seed.sh "$src" | head -1); echo "$out"
case "$out" in *"apply=0 demo_without=0 demo_with=1 tests: passed 284; baseline 284; baseline tests not passing: 0"*) ;; *) echo "NOT CONFIRMED"; exit 1;; esac
d=/verif/seeded/$sid; mkdir -p "$d"; cp "$src/patch.diff" "$d/patch.diff"; cp "$src/demo.py" "$d/demo.py"
/venv/bin/python - "$d" "$sid" "$prop" "$needs" "$breaks" "$by" <<'PY'
import json,sys
d,sid,prop,needs,breaks,by=sys.argv[1:7]
json.dump({"id":sid,"property":prop,"breaks":breaks,"needs":needs,"written_by":by,
 "confirmed":"tools/confirm_seed.sh: in a fresh worktree demo.py exits 0 without the patch and 1 with it; pinned suite 284/284 with the patch"},open(d+"/meta.json","w"),indent=1)
PY
/verif/tools/run_seeded.py "$sid" 2>&1 | tail -1 | cut -c1-360
