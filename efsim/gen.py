"""Swarm configuration and topology generator: Keyed -> spec (well-formed by construction, envelope W1-W8)."""
import math

from efsim.spec import SERVER_CLASSES

ZONES = ["Europe/Paris", "Europe/London", "America/New_York", "Asia/Kolkata", "Asia/Kathmandu",
         "Australia/Sydney", "Australia/Lord_Howe", "UTC", "Asia/Tokyo", "America/Sao_Paulo",
         "Pacific/Apia", "Africa/Dakar", "America/St_Johns", "fixed:330", "fixed:-210", "zi:Europe/Berlin",
         "zi:America/Chicago", "dt:0", "dt:345"]
# ("fixed:<minutes>" is a pytz.FixedOffset: a time zone without a zone name; "zi:<key>" a zoneinfo.ZoneInfo;
#  "dt:<minutes>" a datetime.timezone)


def timezone_of(zone):
    import pytz
    if zone.startswith("fixed:"):
        return pytz.FixedOffset(int(zone.split(":")[1]))
    if zone.startswith("zi:"):
        import zoneinfo
        return zoneinfo.ZoneInfo(zone[3:])
    if zone.startswith("dt:"):
        import datetime
        return datetime.timezone(datetime.timedelta(minutes=int(zone[3:])))
    return pytz.timezone(zone)
# start instants biased towards DST transition days (EU 2025-03-30 / 2025-10-26, US 2025-03-09 / 2025-11-02,
# AU 2025-04-06 / 2025-10-05) plus ordinary days
STARTS = ["2025-01-01 00:00:00", "2025-03-29 18:00:00", "2025-10-25 19:00:00", "2025-03-08 20:00:00",
          "2025-11-01 21:00:00", "2025-04-05 10:00:00", "2025-10-04 12:00:00", "2024-12-31 17:00:00",
          "2025-06-15 05:00:00"]
SOURCES = [["hypothesis", None], ["user data", None],
           ["Base ADEME_V19", "https://data.ademe.fr/datasets/base-carbone(r)"],
           ["efsim study", "https://example.invalid/efsim"],
           # two pages of one source: same name, other link
           ["efsim study", "https://example.invalid/efsim/annex-b"], ["hypothesis", "https://example.invalid/why"]]

TECHNOLOGIES = ['go-pgx', 'jvm-kotlin-spring', 'node-express-sequelize', 'php-symfony', 'rust-actix-sqlx']
IMPL_DETAILS = ['aggregation-code-side', 'default', 'mysql', 'no-index', 'no-pagination', 'orm-loop']
RESOLUTIONS = ["480p (640 x 480)", "720p (1280 x 720)", "1080p (1920 x 1080)", "1440p (2560 x 1440)",
               "2K (2048 x 1080)", "4K (3840 x 2160)", "8K (7680 x 4320)"]
GENAI_MODELS = {"mistralai": ["open-mistral-7b", "ministral-3b-2410", "ministral-8b-2410", "open-mistral-nemo",
                              "mistral-small", "open-mixtral-8x7b"],
                "openai": ["gpt-4o-mini", "gpt-3.5-turbo", "o1-mini"]}
CLOUD_INSTANCES = {"scaleway": ["ent1-s", "ent1-m", "ent1-l", "dev1-l"],
                   "aws": ["a1.4xlarge", "c1.xlarge", "a1.2xlarge"]}
SERVER_TYPES = ["autoscaling", "on-premise", "serverless"]

# defaults: (magnitude, unit); the generator scales them by a random factor
NUM_DEFAULTS = {
    "Storage": {"carbon_footprint_fabrication_per_storage_capacity": (160, "kg/TB"),
                "power_per_storage_capacity": (1.3, "W/TB"), "lifespan": (6, "year"), "idle_power": (0.1, "W"),
                "storage_capacity": (1, "TB"), "data_replication_factor": (3, "dimensionless"),
                "data_storage_duration": (5, "year"), "base_storage_need": (0.5, "TB")},
    "Server": {"carbon_footprint_fabrication": (600, "kg"), "power": (300, "W"), "lifespan": (6, "year"),
               "idle_power": (50, "W"), "ram": (128, "GB"), "compute": (24, "cpu_core"),
               "power_usage_effectiveness": (1.2, "dimensionless"), "average_carbon_intensity": (100, "g/kWh"),
               "server_utilization_rate": (0.9, "dimensionless"), "base_ram_consumption": (1, "GB"),
               "base_compute_consumption": (0.5, "cpu_core")},
    "GPUServer": {"gpu_power": (400, "W/gpu"), "gpu_idle_power": (50, "W/gpu"), "ram_per_gpu": (80, "GB/gpu"),
                  "carbon_footprint_fabrication_per_gpu": (150, "kg/gpu"),
                  "average_carbon_intensity": (100, "g/kWh"), "compute": (4, "gpu"),
                  "carbon_footprint_fabrication_without_gpu": (2500, "kg"), "lifespan": (6, "year"),
                  "power_usage_effectiveness": (1.2, "dimensionless"),
                  "server_utilization_rate": (1, "dimensionless"), "base_compute_consumption": (0.1, "gpu"),
                  "base_ram_consumption": (1, "GB")},
    "BoaviztaCloudServer": {"lifespan": (6, "year"), "idle_power": (5, "W"),
                            "power_usage_effectiveness": (1.2, "dimensionless"),
                            "average_carbon_intensity": (0.233, "kg/kWh"),
                            "server_utilization_rate": (0.9, "dimensionless"), "base_ram_consumption": (1, "GB"),
                            "base_compute_consumption": (0.2, "cpu_core")},
    "VideoStreaming": {"base_ram_consumption": (2, "GB"), "bits_per_pixel": (0.1, "dimensionless"),
                       "static_delivery_cpu_cost": (4, "cpu_core/(GB/s)"), "ram_buffer_per_user": (50, "MB")},
    "GenAIModel": {"nb_of_bits_per_parameter": (16, "dimensionless"), "llm_memory_factor": (1.2, "dimensionless"),
                   "gpu_latency_alpha": (8.02e-13, "s"), "gpu_latency_beta": (2.23e-2, "s"),
                   "bits_per_token": (24, "dimensionless")},
    "Job": {"data_transferred": (150, "kB"), "data_stored": (100, "kB"), "request_duration": (1, "s"),
            "compute_needed": (0.1, "cpu_core"), "ram_needed": (50, "MB")},
    "VideoStreamingJob": {"video_duration": (20, "min"), "refresh_rate": (30, "1/s"), "data_stored": (1, "MB")},
    "WebApplicationJob": {"data_transferred": (2.2, "MB"), "data_stored": (100, "kB")},
    "GenAIJob": {"output_token_count": (1000, "dimensionless")},
    "UsageJourneyStep": {"user_time_spent": (1, "min")},
    "Device": {"carbon_footprint_fabrication": (150, "kg"), "power": (50, "W"), "lifespan": (6, "year"),
               "fraction_of_usage_time": (7, "hour/day")},
    "Country": {"average_carbon_intensity": (85, "g/kWh")},
    "Network": {"bandwidth_energy_intensity": (0.05, "kWh/GB")},
}
# inputs that may legitimately be set to zero without making a divisor vanish
ZERO_OK = {"user_time_spent", "base_ram_consumption", "base_compute_consumption", "idle_power",
           "base_storage_need", "data_stored", "data_transferred", "gpu_idle_power", "ram_needed",
           "compute_needed", "ram_buffer_per_user"}
# alternative units of the same dimension (for unit-switching edits)
ALT_UNITS = {"kB": ["MB", "B", "GB"], "MB": ["kB", "GB"], "GB": ["MB", "TB"], "TB": ["GB"],
             "s": ["min", "ms", "hour"], "min": ["s", "hour"], "year": ["day", "month"], "W": ["kW", "mW"],
             "kg": ["g", "tonne"], "g/kWh": ["kg/MWh", "kg/kWh"], "kg/kWh": ["g/kWh"], "kWh/GB": ["Wh/MB", "kWh/TB"],
             "hour/day": ["dimensionless", "min/hour"], "1/s": ["1/min"], "kg/TB": ["g/GB"], "W/TB": ["mW/GB"],
             "W/gpu": ["kW/gpu"], "GB/gpu": ["MB/gpu"], "kg/gpu": ["g/gpu"]}


def factor(rng, spread=0.5):
    return 10 ** rng.uniform(-spread, spread)


def swarm_config(k):
    """Per-run configuration drawn from the run key (swarm style: everything varies per run)."""
    r = k.rng("swarm")
    cfg = {
        "n_up": r.choice([1, 2, 2, 3]),
        "n_uj": r.choice([1, 1, 2, 3]),
        "n_steps": r.randint(1, 5),
        "n_jobs": r.randint(1, 6),
        "n_servers": r.randint(1, 4),
        "builders": r.random() < 0.45,
        "rich_builders": r.random() < 0.5,      # (only with builders) two GPU servers, two GenAI models, every service class
        "p_share_job": r.choice([0.0, 0.3, 0.6]),
        "p_share_step": r.choice([0.0, 0.3, 0.6]),
        "p_share_misc": r.choice([0.0, 0.4, 0.8]),
        "series_len": r.choice([6, 9, 12, 24, 30, 48, 72, 96]),
        "offset_starts": r.random() < 0.4,
        "multi_zone": r.random() < 0.6,
        "long_requests": r.random() < 0.35,
        "short_storage": r.random() < 0.3,
        "deleting_jobs": r.random() < 0.2,
        "nice_numbers": r.random() < 0.25,
        "fault_rate": r.choice([0.0, 0.1, 0.2, 0.4]),
    }
    return cfg


def qv(rng, cls, attr, nice=False, spread=0.5):
    mag, unit = NUM_DEFAULTS[cls][attr]
    if nice:
        m = mag * rng.choice([0.5, 1, 1, 2, 4])
    else:
        m = mag * factor(rng, spread)
    if rng.random() < 0.15:
        # the same physical value written in another unit (a server's RAM in MB, a lifespan in days...)
        alts = ALT_UNITS.get(unit.replace(" ", ""))
        if alts:
            from efootprint.constants.units import u
            nu = rng.choice(alts)
            try:
                m, unit = float(u.Quantity(float(m), unit).to(nu).magnitude), nu
            except Exception:
                pass
    return ["q", float(m), unit]


def series(rng, n, nice=False):
    """n hourly values, multiples of 1/8 (lossless under the documented 3-decimal rounding)."""
    if nice:
        return [float(rng.choice([0, 100, 200, 400, 1000])) for _ in range(n)]
    out = []
    for _ in range(n):
        x = rng.random()
        if x < 0.1:
            out.append(0.0)
        else:
            out.append(rng.randint(1, 40000) / 8.0)
    return out


def shift_start(start, hours):
    from datetime import datetime, timedelta
    d = datetime.strptime(start, "%Y-%m-%d %H:%M:%S") + timedelta(hours=hours)
    return d.strftime("%Y-%m-%d %H:%M:%S")


def gen_spec(k, cfg):
    r = k.rng("topology")
    nice = cfg["nice_numbers"]
    objs, order = {}, []

    def add(name, cls, attrs):
        src = {}
        for a, v in attrs.items():
            if v is not None and v[0] in ("q", "s", "tz", "h"):
                src[a] = r.choice(SOURCES)
        objs[name] = {"cls": cls, "attrs": attrs, "src": src}
        order.append(name)
        return name

    def nums(cls):
        return {a: qv(r, cls, a, nice) for a in NUM_DEFAULTS.get(cls, {})}

    servers, gpu_servers = [], []
    n_srv = cfg["n_servers"]
    rich = bool(cfg["builders"] and cfg.get("rich_builders"))
    forced_classes = ["Server", "BoaviztaCloudServer", "GPUServer", "GPUServer"] if rich else []
    if rich:
        n_srv = 4
    for i in range(1, n_srv + 1):
        st_attrs = nums("Storage")
        if cfg["short_storage"] and r.random() < 0.7:
            st_attrs["data_storage_duration"] = ["q", float(r.choice([2, 5, 13, 30])), "hour"]
        if r.random() < 0.3:
            st_attrs["base_storage_need"] = ["q", 0.0, "TB"]
        if cfg["deleting_jobs"]:
            st_attrs["base_storage_need"] = ["q", 50.0 * factor(r), "TB"]
        st_attrs["fixed_nb_of_instances"] = ["q", 100000.0, "dimensionless"] if r.random() < 0.15 else ["e"]
        st = add(f"st{i}", "Storage", st_attrs)
        cls = "Server"
        if cfg["builders"]:
            cls = r.choice(["Server", "Server", "BoaviztaCloudServer", "GPUServer"])
        if i == 1 and cls == "GPUServer":
            cls = "Server"
        if forced_classes:
            cls = forced_classes[i - 1]
        a = nums(cls)
        if rich and cls == "GPUServer":
            a["compute"] = ["q", a["compute"][1] * 6, a["compute"][2]]     # room for two models on one server
        stype = r.choice(SERVER_TYPES)
        a["server_type"] = ["s", stype]
        a["fixed_nb_of_instances"] = ["e"]
        if stype == "on-premise" and r.random() < 0.4:
            a["fixed_nb_of_instances"] = ["q", float(r.choice([5000, 20000])), "dimensionless"]
        a["storage"] = ["ref", st]
        if cls == "BoaviztaCloudServer":
            prov = r.choice(sorted(CLOUD_INSTANCES))
            a["provider"] = ["s", prov]
            a["instance_type"] = ["s", r.choice(CLOUD_INSTANCES[prov])]
        srv = add(f"srv{i}", cls, a)
        (gpu_servers if cls == "GPUServer" else servers).append(srv)

    services = {"VideoStreaming": [], "WebApplication": [], "GenAIModel": []}
    if cfg["builders"]:
        n_svc = 5 if rich else r.randint(1, 3)
        forced_svc = ["VideoStreaming", "WebApplication", "GenAIModel", "GenAIModel", "WebApplication"] if rich else []
        for i in range(1, n_svc + 1):
            cls = r.choice(["VideoStreaming", "WebApplication", "GenAIModel"])
            if forced_svc:
                cls = forced_svc[i - 1]
            if cls == "GenAIModel" and not gpu_servers:
                cls = r.choice(["VideoStreaming", "WebApplication"])
            a = nums(cls)
            if cls == "GenAIModel":
                a["server"] = ["ref", r.choice(gpu_servers)]
                prov = r.choice(sorted(GENAI_MODELS))
                a["provider"] = ["s", prov]
                a["model_name"] = ["s", r.choice(GENAI_MODELS[prov])]
            else:
                a["server"] = ["ref", r.choice(servers)]
                if cls == "WebApplication":
                    a["technology"] = ["s", r.choice(TECHNOLOGIES)]
            services[cls].append(add(f"svc{i}", cls, a))

    jobs = []
    n_jobs = max(cfg["n_jobs"], 5) if rich else cfg["n_jobs"]
    forced_jobs = ["GenAIJob", "VideoStreamingJob", "WebApplicationJob", "GenAIJob", "Job"] if rich else []
    for i in range(1, n_jobs + 1):
        choices = ["Job", "Job"]
        if services["VideoStreaming"]:
            choices.append("VideoStreamingJob")
        if services["WebApplication"]:
            choices.append("WebApplicationJob")
        if services["GenAIModel"]:
            choices.append("GenAIJob")
        cls = r.choice(choices)
        if forced_jobs and i <= len(forced_jobs):
            cls = forced_jobs[i - 1]
        a = nums(cls)
        if cls == "Job":
            a["server"] = ["ref", r.choice(servers)]
            if cfg["long_requests"] and r.random() < 0.5:
                a["request_duration"] = ["q", float(r.choice([0.75, 1.0, 1.5, 2.5])) * (1 if nice else factor(r, 0.05)),
                                         "hour"]
            if cfg["deleting_jobs"] and r.random() < 0.4:
                a["data_stored"] = ["q", -abs(a["data_stored"][1]) * 0.01, a["data_stored"][2]]
        elif cls == "VideoStreamingJob":
            a["service"] = ["ref", r.choice(services["VideoStreaming"])]
            a["resolution"] = ["s", r.choice(RESOLUTIONS[:4])]
        elif cls == "WebApplicationJob":
            a["service"] = ["ref", r.choice(services["WebApplication"])]
            a["implementation_details"] = ["s", r.choice(IMPL_DETAILS)]
            if objs[a["service"][1]]["attrs"]["technology"][1] == "rust-actix-sqlx" and a["implementation_details"][1] == "mysql":
                a["implementation_details"] = ["s", "default"]   # no benchmark row for that pair
        elif cls == "GenAIJob":
            a["service"] = ["ref", r.choice(services["GenAIModel"])]
        jobs.append(add(f"j{i}", cls, a))

    steps = []
    unused_jobs = list(jobs)
    for i in range(1, cfg["n_steps"] + 1):
        n = r.choice([0, 1, 1, 2, 3]) if i > 1 else r.choice([1, 2])
        mine = []
        for _ in range(n):
            if unused_jobs and not (mine and r.random() < cfg["p_share_job"]):
                mine.append(unused_jobs.pop(0))
            else:
                mine.append(r.choice(jobs))
        a = {"user_time_spent": qv(r, "UsageJourneyStep", "user_time_spent", nice, spread=1.2), "jobs": ["refs", mine]}
        if r.random() < 0.1:
            a["user_time_spent"] = ["q", float(r.choice([60, 90, 125])), "min"]
        steps.append(add(f"step{i}", "UsageJourneyStep", a))

    ujs = []
    unused_steps = list(steps)
    for i in range(1, cfg["n_uj"] + 1):
        n = r.randint(1, 3)
        mine = []
        for _ in range(n):
            if unused_steps and not (mine and r.random() < cfg["p_share_step"]):
                mine.append(unused_steps.pop(0))
            else:
                mine.append(r.choice(steps))
        ujs.append(add(f"uj{i}", "UsageJourney", {"uj_steps": ["refs", mine]}))

    n_up = cfg["n_up"]
    devices = [add(f"dev{i}", "Device", nums("Device")) for i in range(1, r.randint(1, 3) + 1)]
    zones = [r.choice(ZONES) for _ in range(3)] if cfg["multi_zone"] else [r.choice(ZONES)] * 3
    countries, networks = [], []
    for i in range(1, n_up + 1):
        if i == 1 or r.random() >= cfg["p_share_misc"]:
            a = nums("Country")
            a["short_name"] = ["str", f"C{i}"]
            a["timezone"] = ["tz", zones[i - 1]]
            countries.append(add(f"c{i}", "Country", a))
        if i == 1 or r.random() >= cfg["p_share_misc"]:
            networks.append(add(f"net{i}", "Network", nums("Network")))

    base_start = r.choice(STARTS)
    ups = []
    for i in range(1, n_up + 1):
        start = base_start
        if cfg["offset_starts"] and i > 1:
            start = shift_start(base_start, r.choice([-30, -5, -1, 1, 3, 26]))
        uj = ujs[(i - 1) % len(ujs)] if r.random() < 0.7 else r.choice(ujs)
        devs = [r.choice(devices) for _ in range(r.choice([1, 1, 2]))]
        devs = list(dict.fromkeys(devs))
        a = {"usage_journey": ["ref", uj], "devices": ["refs", devs], "network": ["ref", r.choice(networks)],
             "country": ["ref", r.choice(countries)],
             "hourly_usage_journey_starts": ["h", start, series(r, cfg["series_len"], nice), "dimensionless"]}
        ups.append(add(f"up{i}", "UsagePattern", a))

    add("sys", "System", {"usage_patterns": ["refs", ups]})
    return {"objs": objs, "order": order}


def full_spec(k, cfg):
    """A topology containing at least one object of each of the 18 public classes (used by the fault
    catalogues); numbers are drawn like in gen_spec."""
    r = k.rng("full-topology")
    nice = cfg.get("nice_numbers", False)
    objs, order = {}, []

    def add(name, cls, attrs):
        src = {a: r.choice(SOURCES) for a, v in attrs.items() if v is not None and v[0] in ("q", "s", "tz", "h")}
        objs[name] = {"cls": cls, "attrs": attrs, "src": src}
        order.append(name)
        return name

    def nums(cls):
        return {a: qv(r, cls, a, nice, 0.2) for a in NUM_DEFAULTS.get(cls, {})}

    for i in (1, 2, 3):
        a = nums("Storage")
        a["fixed_nb_of_instances"] = ["e"]
        add(f"st{i}", "Storage", a)
    a = nums("Server"); a.update({"server_type": ["s", "on-premise"], "fixed_nb_of_instances": ["q", 50000.0, "dimensionless"],
                                  "storage": ["ref", "st1"]})
    add("srv1", "Server", a)
    a = nums("BoaviztaCloudServer"); a.update({"server_type": ["s", "autoscaling"], "fixed_nb_of_instances": ["e"],
                                               "storage": ["ref", "st2"], "provider": ["s", "scaleway"],
                                               "instance_type": ["s", "ent1-m"]})
    add("srv2", "BoaviztaCloudServer", a)
    a = nums("GPUServer"); a.update({"server_type": ["s", "serverless"], "fixed_nb_of_instances": ["e"],
                                     "storage": ["ref", "st3"]})
    add("srv3", "GPUServer", a)
    a = nums("VideoStreaming"); a["server"] = ["ref", "srv1"]
    add("svc1", "VideoStreaming", a)
    add("svc2", "WebApplication", {"server": ["ref", "srv2"], "technology": ["s", r.choice(TECHNOLOGIES)]})
    a = nums("GenAIModel"); a.update({"server": ["ref", "srv3"], "provider": ["s", "mistralai"],
                                      "model_name": ["s", "open-mistral-7b"]})
    add("svc3", "GenAIModel", a)
    a = nums("Job"); a["server"] = ["ref", "srv1"]
    add("j1", "Job", a)
    a = nums("VideoStreamingJob"); a.update({"service": ["ref", "svc1"], "resolution": ["s", RESOLUTIONS[1]]})
    add("j2", "VideoStreamingJob", a)
    a = nums("WebApplicationJob"); a.update({"service": ["ref", "svc2"], "implementation_details": ["s", "default"]})
    add("j3", "WebApplicationJob", a)
    a = nums("GenAIJob"); a["service"] = ["ref", "svc3"]
    add("j4", "GenAIJob", a)
    add("step1", "UsageJourneyStep", {"user_time_spent": qv(r, "UsageJourneyStep", "user_time_spent", nice),
                                      "jobs": ["refs", ["j1", "j2"]]})
    add("step2", "UsageJourneyStep", {"user_time_spent": qv(r, "UsageJourneyStep", "user_time_spent", nice),
                                      "jobs": ["refs", ["j3", "j4", "j1"]]})
    add("uj1", "UsageJourney", {"uj_steps": ["refs", ["step1", "step2"]]})
    add("dev1", "Device", nums("Device"))
    add("dev2", "Device", nums("Device"))
    a = nums("Country"); a.update({"short_name": ["str", "C1"], "timezone": ["tz", r.choice(ZONES)]})
    add("c1", "Country", a)
    add("net1", "Network", nums("Network"))
    start = r.choice(STARTS)
    n = r.choice([6, 12, 24])
    for i in (1, 2):
        add(f"up{i}", "UsagePattern", {
            "usage_journey": ["ref", "uj1"], "devices": ["refs", ["dev1"] if i == 1 else ["dev1", "dev2"]],
            "network": ["ref", "net1"], "country": ["ref", "c1"],
            "hourly_usage_journey_starts": ["h", start if i == 1 else shift_start(start, 2),
                                            [x / 10 for x in series(r, n, nice)], "dimensionless"]})
    add("sys", "System", {"usage_patterns": ["refs", ["up1", "up2"]]})
    return {"objs": objs, "order": order}
