"""Property monitors (one per claimed property).  Each enables only its own oracles."""
import copy

from efsim import spec as S, compare as C, opgen
from efsim.runner import BaseMonitor, Violation, op_kind


def totals(system):
    return {"energy": C.norm(system.total_energy_footprint_sum_over_period),
            "fabrication": C.norm(system.total_fabrication_footprint_sum_over_period)}


def reference_world(sim):
    """What a system freshly built from the same final inputs computes (same keyed ids as the live world)."""
    return S.build_world(sim.spec, sim.salt)


class C01(BaseMonitor):
    """Incremental recomputation equals recomputation from scratch."""
    prop = "C01"

    def on_start(self):
        self.initial_totals = totals(self.sim.world.system)
        self.check_reference(-1, {"op": "initial"})
        self.prev_snapshot = None

    def next_op(self, i):
        return opgen.gen_edit(self.k.rng("op", i), self.sim.spec, self.cfg, i)

    def step(self, i, op):
        sim = self.sim
        system = sim.world.system
        in_closure_before = set(S.closure(sim.spec))
        spec_before = copy.deepcopy(sim.spec["objs"])
        before = totals(system) if op["op"] in ("set", "list", "group") else None
        status, ret = self.execute(op)
        if status == "skip":
            return "skip"
        if status == "hang":
            raise Violation("C01", "hang", {ret.site}, f"accepted edit does not return (> watchdog) in {ret.site}",
                            i, op_kind(op))
        if status == "raised":
            # not an accepted edit: C01 says nothing; the live world may be half-updated, so the run ends
            self.res.count("ended_on_raise:" + type(ret).__name__)
            self.stop = "op_raised"
            return "raised"
        self.check_reference(i, op)
        self.check_before_after_reference(i, op, before, spec_before, in_closure_before)
        return "ok"

    def check_reference(self, i, op):
        sim = self.sim
        try:
            ref = reference_world(sim)
        except (ValueError, PermissionError) as e:
            # the library refuses to build this description from scratch: outside the envelope (W4)
            self.res.count("left_envelope:" + type(e).__name__)
            self.stop = "left_envelope"
            return
        except Exception as e:
            # not a refusal but a crash (KeyError, AttributeError, ...) on a description that the live model
            # accepted edit by edit: there is nothing the live values could be equal to
            raise Violation("C01", "fresh_build_crash", {type(e).__name__},
                            f"building the final inputs from scratch crashes: {type(e).__name__}: {str(e)[:200]}",
                            i, op_kind(op))
        names = S.closure(sim.spec)
        live = C.calc_snapshot(sim.world, names)
        fresh = C.calc_snapshot(ref, names)
        diffs = C.diff_snapshots(live, fresh, self.cls_of)
        self.res.count("values_compared", len(live))
        if diffs:
            raise Violation("C01", "live_vs_fresh", self.where_of(diffs), self.fmt(diffs), i, op_kind(op))

    def check_before_after_reference(self, i, op, before, spec_before, in_closure_before):
        sim = self.sim
        system = sim.world.system
        now_initial = {"energy": C.norm(system.initial_total_energy_footprints_sum_over_period),
                       "fabrication": C.norm(system.initial_total_fabrication_footprints_sum_over_period)}
        for key in ("energy", "fabrication"):
            ok, why = C.phys_equal(now_initial[key], self.initial_totals[key])
            if not ok:
                raise Violation("C01", "initial_totals", {f"System.initial_total_{key}"}, why, i, op_kind(op))
        if before is None:
            return
        touched = [ch["obj"] for ch in (op["changes"] if op["op"] == "group" else [op])]
        effective = any(spec_before.get(n) != sim.spec["objs"].get(n) for n in touched)
        if not effective or not any(n in in_closure_before for n in touched):
            return
        prev = {"energy": C.norm(system.previous_total_energy_footprints_sum_over_period),
                "fabrication": C.norm(system.previous_total_fabrication_footprints_sum_over_period)}
        for key in ("energy", "fabrication"):
            ok, why = C.phys_equal(prev[key], before[key])
            if not ok:
                raise Violation("C01", "previous_totals", {f"System.previous_total_{key}"}, why, i, op_kind(op))
        self.res.count("before_after_checked")


MONITORS = {"C01": C01}


# ---------------------------------------------------------------------------------------------------
# C16

def raised_in_update_function(exc):
    """True if the exception was thrown while an update_<attr> function of the library was running
    (a natural recomputation fault), False if it comes from the link / validation machinery itself."""
    tb = exc.__traceback__
    while tb is not None:
        code = tb.tb_frame.f_code
        if code.co_name.startswith("update_") and "/efootprint/" in code.co_filename and (
                "/core/" in code.co_filename or "/builders/" in code.co_filename):
            return True
        tb = tb.tb_next
    return False


def expected_lookups(spec):
    """Reverse look-ups implied by the forward links of the spec (recomputed from scratch, plain Python)."""
    O = spec["objs"]
    users = {n: set() for n in O}
    for n, o in O.items():
        for a, v in o["attrs"].items():
            if v is None:
                continue
            if v[0] == "ref" and v[1] in users:
                users[v[1]].add(n)
            elif v[0] == "refs":
                for m in v[1]:
                    if m in users:
                        users[m].add(n)
    cls = {n: O[n]["cls"] for n in O}
    is_job = lambda n: cls[n] in S.JOB_CLASSES
    steps_of_job = {j: {u for u in users[j] if cls[u] == "UsageJourneyStep"} for j in O if is_job(j)}
    ujs_of_step = {s: {u for u in users[s] if cls[u] == "UsageJourney"} for s in O if cls[s] == "UsageJourneyStep"}
    ups_of_uj = {j: {u for u in users[j] if cls[u] == "UsagePattern"} for j in O if cls[j] == "UsageJourney"}
    ups_of_step = {s: set().union(*[ups_of_uj[uj] for uj in ujs_of_step[s]]) if ujs_of_step[s] else set()
                   for s in ujs_of_step}
    ups_of_job = {j: set().union(*[ups_of_step[s] for s in steps_of_job[j]]) if steps_of_job[j] else set()
                  for j in steps_of_job}

    def server_of_job(j):
        a = O[j]["attrs"]
        if "server" in a:
            return a["server"][1]
        return O[a["service"][1]]["attrs"]["server"][1]

    jobs_of_server = {s: {j for j in O if is_job(j) and server_of_job(j) == s} for s in O if cls[s] in S.SERVER_CLASSES}
    out = {"users": users, "steps_of_job": steps_of_job, "ujs_of_step": ujs_of_step, "ups_of_uj": ups_of_uj,
           "ups_of_step": ups_of_step, "ups_of_job": ups_of_job, "jobs_of_server": jobs_of_server,
           "net_of_up": {u: O[u]["attrs"]["network"][1] for u in O if cls[u] == "UsagePattern"},
           "in_system": set(S.closure(spec))}
    return out


def names(xs):
    return sorted(x.name for x in xs)


class C16(BaseMonitor):
    """Links between objects stay consistent under every kind of edit."""
    prop = "C16"

    def on_start(self):
        self.check_links(-1, {"op": "initial"})

    def next_op(self, i):
        return opgen.gen_edit(self.k.rng("op", i), self.sim.spec, self.cfg, i, mix=opgen.C16_MIX)

    # -- observation of the live links (no spec involved) -----------------------------------------
    def live_links(self):
        w = self.sim.world
        out = {}
        for n, o in w.objs.items():
            sp = self.sim.spec["objs"][n]
            for a, v in sp["attrs"].items():
                if v is None:
                    continue
                if v[0] == "ref":
                    tgt = getattr(o, a)
                    out[(n, a)] = tgt.name if tgt is not None else None
                elif v[0] == "refs":
                    out[(n, a)] = [x.name for x in getattr(o, a)]
            out[(n, "<containers>")] = names(o.modeling_obj_containers)
        return out

    def step(self, i, op):
        sim = self.sim
        before = self.live_links()
        sim.expect = None
        status, ret = self.execute(op)
        kind = op["op"]
        if status == "skip":
            return "skip"
        if status == "hang":
            raise Violation("C16", "hang", {ret.site}, f"link operation does not return in {ret.site}", i, op_kind(op))
        expect_exc = None
        if kind == "list" and sim.expect is not None:
            expect_exc = sim.expect["exc"]
        elif kind == "delete" and op.get("expect") == "refused":
            expect_exc = "PermissionError"
        elif kind == "second_system":
            expect_exc = "PermissionError"
        if status == "raised":
            got = type(ret).__name__
            if raised_in_update_function(ret):
                # a natural recomputation fault (capacity, storage...) is not a statement about links
                self.res.count("ended_on_recomputation_fault:" + got)
                self.stop = "op_raised"
                return "raised"
            if expect_exc is None:
                raise Violation("C16", "unexpected_exception", {f"{op_kind(op)}:{got}"},
                                f"{op_kind(op)} raised {got}: {str(ret)[:200]} where a Python list / a plain "
                                f"assignment raises nothing", i, op_kind(op))
            if got != expect_exc:
                raise Violation("C16", "wrong_exception", {f"{op_kind(op)}:{got}"},
                                f"raised {got} ({str(ret)[:120]}), expected {expect_exc}", i, op_kind(op))
            after = self.live_links()
            changed = [k for k in before.keys() | after.keys() if before.get(k) != after.get(k)]
            if changed:
                raise Violation("C16", "refused_op_changed_links", {f"{self.cls_of(k[0])}.{k[1]}" for k in changed
                                                                     if k[0] in sim.spec["objs"]} or {"?"},
                                f"{op_kind(op)} raised {got} but links changed: {sorted(changed)[:5]}", i, op_kind(op))
            self.res.count("fault:expected_" + got)
            self.check_links(i, op)
            return "refused"
        # accepted
        if expect_exc is not None:
            raise Violation("C16", "missing_exception", {f"{op_kind(op)}:{expect_exc}"},
                            f"{op_kind(op)} {op.get('args', '')} was accepted, expected {expect_exc}", i, op_kind(op))
        if kind == "list" and op["method"] == "pop":
            got_name = getattr(ret, "name", None)
            if got_name != sim.expect["ret"]:
                raise Violation("C16", "wrong_return", {"list:pop"}, f"pop returned {got_name}, expected "
                                f"{sim.expect['ret']}", i, op_kind(op))
        self.check_links(i, op)
        return "ok"

    def check_links(self, i, op):
        sim = self.sim
        spec, w = sim.spec, sim.world
        O = spec["objs"]
        E = expected_lookups(spec)
        bad = []

        def expect(name, what, got, want):
            if got != want:
                bad.append(((name, what), f"{got} != expected {want}"))

        for n, o in w.objs.items():
            sp = O[n]
            for a, v in sp["attrs"].items():
                if v is None:
                    continue
                if v[0] == "ref":
                    expect(n, a, getattr(o, a).name, v[1])
                elif v[0] == "refs":
                    lst = getattr(o, a)
                    expect(n, a, [x.name for x in lst], list(v[1]))
                    if lst.modeling_obj_container is not o or lst.attr_name_in_mod_obj_container != a:
                        bad.append(((n, a), "live list is not attached to its object"))
                    for x in lst:
                        if x.modeling_obj_container is not o or x.attr_name_in_mod_obj_container != a:
                            bad.append(((n, a), f"wrapper of {x.name} not attached to {n}.{a}"))
                            break
            conts = o.modeling_obj_containers
            expect(n, "modeling_obj_containers", names(conts), sorted(E["users"][n]))
            c = sp["cls"]
            want_sys = ["sys"] if n in E["in_system"] else []
            expect(n, "systems", names(o.systems), want_sys)
            if c in S.JOB_CLASSES:
                expect(n, "usage_journey_steps", names(o.usage_journey_steps), sorted(E["steps_of_job"][n]))
                expect(n, "usage_patterns", names(o.usage_patterns), sorted(E["ups_of_job"][n]))
                expect(n, "networks", names(o.networks), sorted({E["net_of_up"][u] for u in E["ups_of_job"][n]}))
            elif c == "UsageJourneyStep":
                expect(n, "usage_journeys", names(o.usage_journeys), sorted(E["ujs_of_step"][n]))
                expect(n, "usage_patterns", names(o.usage_patterns), sorted(E["ups_of_step"][n]))
            elif c == "UsageJourney":
                expect(n, "usage_patterns", names(o.usage_patterns), sorted(E["ups_of_uj"][n]))
                want_jobs = [j for s in sp["attrs"]["uj_steps"][1] for j in O[s]["attrs"]["jobs"][1]]
                expect(n, "jobs", [j.name for j in o.jobs], want_jobs)
            elif c in S.SERVER_CLASSES:
                expect(n, "jobs", names(o.jobs), sorted(E["jobs_of_server"][n]))
                expect(n, "installed_services", names(o.installed_services),
                       sorted(m for m in O if O[m]["cls"] in S.SERVICE_CLASSES and O[m]["attrs"]["server"][1] == n))
            elif c == "Storage":
                srvs = [m for m in O if O[m]["cls"] in S.SERVER_CLASSES and O[m]["attrs"]["storage"][1] == n]
                want = set()
                for s_ in srvs:
                    want |= E["jobs_of_server"][s_]
                expect(n, "jobs", names(o.jobs), sorted(want))
            elif c in ("Network", "Country"):
                expect(n, "usage_patterns", names(o.usage_patterns), sorted(u for u in E["users"][n]))
            elif c in S.SERVICE_CLASSES:
                expect(n, "jobs", names(o.jobs), sorted(E["users"][n]))
            elif c == "System":
                ups = sp["attrs"]["usage_patterns"][1]
                expect(n, "networks", names(o.networks), sorted({E["net_of_up"][u] for u in ups}))
                expect(n, "usage_journeys", names(o.usage_journeys),
                       sorted({O[u]["attrs"]["usage_journey"][1] for u in ups}))
                expect(n, "servers", names(o.servers), sorted(
                    {m for m in E["in_system"] if O[m]["cls"] in S.SERVER_CLASSES and E["jobs_of_server"][m] & {
                        j for j in E["in_system"] if O[j]["cls"] in S.JOB_CLASSES and E["ups_of_job"][j]}}))
        self.res.count("lookups_checked", len(w.objs))
        if bad:
            where = {f"{self.cls_of(k[0])}.{k[1]}" for k, _ in bad}
            raise Violation("C16", "links", where, self.fmt(sorted(bad)), i, op_kind(op))


MONITORS["C16"] = C16


# ---------------------------------------------------------------------------------------------------
# C14

from efsim import identity, faults, gen  # noqa: E402
from efsim.sim import Sim  # noqa: E402

FAULT_OPS = ("bad_set", "bad_group", "bad_list", "bad_construct")


def all_pairs():
    """(class, parameter) pairs of the public class list, in a fixed order."""
    out = []
    from efootprint.core.all_classes_in_order import ALL_EFOOTPRINT_CLASSES
    for c in ALL_EFOOTPRINT_CLASSES:
        for attr, kind in S.params_of(c.__name__):
            if kind not in ("name", "str"):
                out.append((c.__name__, attr))
    return out


class FaultMonitorMixin:
    """Shared by the fault-centred properties: lazily built control twin for attribution (DESIGN 2.6)."""

    def fault_free_replay_is_clean(self):
        """Re-run the accepted, non-fault part of the history on a second world with the same keyed ids and
        compare it with the fresh reference: False means the engine itself deviates on this history."""
        twin = Sim(self.res.header["spec"], self.sim.salt)
        for op in self.res.ops:
            if op["op"] in FAULT_OPS or op.get("fault"):
                continue
            try:
                twin.apply(op)
            except Exception:
                return False
        try:
            ref = S.build_world(twin.spec, twin.salt)
        except Exception:
            return False
        names_ = S.closure(twin.spec)
        d = C.diff_snapshots(C.calc_snapshot(twin.world, names_), C.calc_snapshot(ref, names_),
                             lambda n: twin.spec["objs"][n]["cls"])
        return not d

    def compare_with_reference(self, i, op, prop, oracle):
        sim = self.sim
        try:
            ref = reference_world(sim)
        except Exception as e:
            self.res.count("left_envelope:" + type(e).__name__)
            self.stop = "left_envelope"
            return
        names_ = S.closure(sim.spec)
        diffs = C.diff_snapshots(C.calc_snapshot(sim.world, names_), C.calc_snapshot(ref, names_), self.cls_of)
        self.res.count("values_compared", len(names_))
        if diffs:
            if not self.fault_free_replay_is_clean():
                self.res.count("inconclusive_engine_defect")
                self.stop = "inconclusive_engine_defect"
                return
            raise Violation(prop, oracle, self.where_of(diffs), self.fmt(diffs), i, op_kind(op))


class C14(FaultMonitorMixin, BaseMonitor):
    """Invalid inputs are rejected, and a rejected edit changes nothing."""
    prop = "C14"

    def __init__(self, sim, k, cfg, res, opts):
        super().__init__(sim, k, cfg, res, opts)
        self.queue = None
        self.pending_fault_check = False

    @staticmethod
    def spec_generator(k, cfg, index):
        (_, _), variant = C14.plan(index)
        if variant < 2:
            return gen.full_spec(k, cfg)
        cfg["builders"] = True
        return gen.gen_spec(k, cfg)

    @staticmethod
    def plan(index):
        pairs = all_pairs()
        return pairs[index % len(pairs)], index // len(pairs)

    def on_start(self):
        idx = self.res.header["index"]
        (cls_name, attr), variant = self.plan(idx)
        self.mode = "enumeration" if variant < 2 else "history"
        self.continue_after_violation = self.mode == "enumeration"
        self.res.extra = {"mode": self.mode, "pair": f"{cls_name}.{attr}"}
        if self.mode == "enumeration":
            spec = self.sim.spec
            entries = [e for e in faults.catalogue(spec, cls_name) if e["attr"] == attr]
            q = []
            for e in entries:
                base = {"obj": e["obj"], "attr": e["attr"], "value": e["value"], "fault": e["fault"], "strong": e["strong"]}
                q.append(dict(base, op="bad_construct", like=e["obj"]))
                q.append(dict(base, op="bad_set"))
                other = self.valid_change(exclude=e["obj"])
                if other is not None:
                    bad = {"obj": e["obj"], "attr": e["attr"], "value": e["value"]}
                    q.append({"op": "bad_group", "changes": [other, bad], "fault": e["fault"], "strong": e["strong"],
                              "obj": e["obj"], "attr": e["attr"]})
                    q.append({"op": "bad_group", "changes": [bad, other], "fault": e["fault"], "strong": e["strong"],
                              "obj": e["obj"], "attr": e["attr"]})
                if e["fault"] in ("list_with_wrong_class", "list_with_non_object"):
                    wrong = e["value"][1][-1] if e["fault"] == "list_with_wrong_class" else 3.5
                    for m in ("append", "insert", "extend", "iadd", "setitem"):
                        if m == "setitem" and not spec["objs"][e["obj"]]["attrs"][e["attr"]][1]:
                            continue
                        q.append({"op": "bad_list", "obj": e["obj"], "attr": e["attr"], "method": m, "bad": wrong,
                                  "fault": e["fault"] + ":" + m, "strong": True})
            self.queue = q

    def valid_change(self, exclude):
        r = self.k.rng("valid-change", exclude)
        spec = self.sim.spec
        for _ in range(10):
            sub = opgen.gen_numeric(r, spec, self.cfg, set(S.closure(spec)), 0)
            if sub is not None and sub["obj"] != exclude:
                return {k_: v for k_, v in sub.items() if k_ != "op"}
        return None

    def next_op(self, i):
        if self.mode == "enumeration":
            if i >= len(self.queue):
                return None
            op = dict(self.queue[i])
            op["i"] = i
            return op
        if i >= self.opts.get("history_ops", 14):
            return None
        r = self.k.rng("op", i)
        spec = self.sim.spec
        if r.random() < max(0.3, self.cfg.get("fault_rate", 0.2)):
            present = sorted({o["cls"] for o in spec["objs"].values()})
            cls_name = r.choice(present)
            entries = faults.catalogue(spec, cls_name)
            if entries:
                e = r.choice(entries)
                bad = {"obj": e["obj"], "attr": e["attr"], "value": e["value"]}
                if r.random() < 0.35:
                    other = opgen.gen_numeric(r, spec, self.cfg, set(S.closure(spec)), i)
                    if other is not None and other["obj"] != e["obj"]:
                        other = {k_: v for k_, v in other.items() if k_ != "op"}
                        ch = [other, bad] if r.random() < 0.5 else [bad, other]
                        return {"op": "bad_group", "changes": ch, "fault": e["fault"], "strong": e["strong"],
                                "obj": e["obj"], "attr": e["attr"], "i": i}
                return dict(bad, op="bad_set", fault=e["fault"], strong=e["strong"], i=i)
        return opgen.gen_edit(r, spec, self.cfg, i)

    def step(self, i, op):
        sim = self.sim
        if op["op"] not in FAULT_OPS:
            status, ret = self.execute(op)
            if status == "raised":
                self.res.count("ended_on_raise:" + type(ret).__name__)
                self.stop = "op_raised"
                return "raised"
            if status == "hang":
                self.stop = "hang_in_plain_edit"
                return "hang"
            if status == "ok" and self.pending_fault_check:
                # "the control twin still agrees afterwards": the first accepted edit after a refusal
                self.compare_with_reference(i, op, "C14", "edit_after_refusal_deviates")
                self.pending_fault_check = False
            return status
        fault = f"{self.cls_of(op['obj'])}.{op['attr']}:{op['fault']}"
        construct = op["op"] == "bad_construct"
        before, pins = (None, None) if construct else identity.snapshot(sim.world)
        status, ret = self.execute(op)
        if status == "skip":
            return "skip"
        if status == "hang":
            raise Violation("C14", "hang", {fault}, f"invalid value makes the call hang in {ret.site}", i, op_kind(op))
        self.res.count("fault:" + op["fault"].split(":")[0] + ("" if op["strong"] else "(weak)"))
        if status == "ok":
            if op["strong"]:
                raise Violation("C14", "accepted_invalid" + ("_at_construction" if construct else ""), {fault},
                                f"{op['op']} with {op['fault']} value {str(op.get('value', op.get('bad')))[:80]} "
                                f"was accepted", i, op_kind(op))
            self.res.count("weak_fault_accepted")
            self.stop = "weak_fault_accepted"
            return "accepted"
        self.res.count("refused:" + type(ret).__name__)
        if construct:
            return "refused"
        in_recomputation = raised_in_update_function(ret)
        if in_recomputation and not op["strong"]:
            # accepted by validation, failed while recomputing: that is C15's subject, not a refusal
            self.res.count("weak_fault_failed_in_recomputation")
            self.stop = "weak_fault_failed_in_recomputation"
            return "raised"
        after, pins2 = identity.snapshot(sim.world)
        d = identity.diff(before, after)
        if d:
            where = {f"{self.cls_of(k_[0])}.{k_[1]}" for k_, _ in d if k_[0] in sim.spec["objs"]}
            oracle = "invalid_value_installed" if in_recomputation else "refused_edit_changed_model"
            raise Violation("C14", oracle, where or {"?"},
                            f"{fault} refused with {type(ret).__name__} but: " + "; ".join(
                                f"{k_}: {why}" for k_, why in d[:5]) + (f" (+{len(d) - 5} more)" if len(d) > 5 else ""),
                            i, op_kind(op))
        self.pending_fault_check = True
        return "refused"


MONITORS["C14"] = C14


# ---------------------------------------------------------------------------------------------------
# C15

def crash_site(exc):
    """Innermost update_<attr> frame of the library in the traceback: 'Class.update_x' (or None)."""
    tb = exc.__traceback__
    site = None
    while tb is not None:
        code = tb.tb_frame.f_code
        if code.co_name.startswith("update_") and "/efootprint/" in code.co_filename:
            self_ = tb.tb_frame.f_locals.get("self")
            site = f"{type(self_).__name__ if self_ is not None else '?'}.{code.co_name}"
        tb = tb.tb_next
    return site


class C15(FaultMonitorMixin, BaseMonitor):
    """A failed recomputation can always be recovered from."""
    prop = "C15"

    def __init__(self, sim, k, cfg, res, opts):
        super().__init__(sim, k, cfg, res, opts)
        self.broken = []            # [(revert op, site)] in failure order
        self.extra_while_broken = 0
        self.episodes = 0
        self.recovering = False

    @staticmethod
    def spec_generator(k, cfg, index):
        cfg["deleting_jobs"] = False
        if index % 3 == 0:
            cfg["builders"] = True
        return gen.gen_spec(k, cfg)

    def revert_op_for(self, op):
        spec = self.sim.spec
        if op["op"] == "group":
            return {"op": "group", "revert": True, "changes": [
                {"obj": ch["obj"], "attr": ch["attr"], "value": copy.deepcopy(spec["objs"][ch["obj"]]["attrs"][ch["attr"]]),
                 "src": spec["objs"][ch["obj"]].get("src", {}).get(ch["attr"])} for ch in op["changes"]]}
        if op["op"] == "set":
            return {"op": "set", "revert": True, "obj": op["obj"], "attr": op["attr"],
                    "value": copy.deepcopy(spec["objs"][op["obj"]]["attrs"][op["attr"]]),
                    "src": spec["objs"][op["obj"]].get("src", {}).get(op["attr"])}
        return None

    def next_op(self, i):
        r = self.k.rng("op", i)
        spec = self.sim.spec
        if self.broken:
            if not self.recovering and self.extra_while_broken < 3 and r.random() < 0.45:
                self.extra_while_broken += 1
                if r.random() < 0.5:
                    cands = faults.failing_edits(self.sim, r)
                    cands = [c for c in cands if self.revert_key(c) not in {self.revert_key(b[0]) for b in self.broken}]
                    if cands:
                        op = r.choice(cands)
                        op["i"] = i
                        return op
                op = opgen.gen_numeric(r, spec, self.cfg, set(S.closure(spec)), i)
                if op is not None and self.revert_key(op) not in {self.revert_key(b[0]) for b in self.broken}:
                    op["i"] = i
                    op["while_broken"] = True
                    return op
            self.recovering = True
            idx = r.randrange(len(self.broken))
            op = dict(self.broken[idx][0])
            op["i"] = i
            op["broken_index"] = idx
            return op
        p_fault = max(0.25, self.cfg.get("fault_rate", 0.2))
        if r.random() < p_fault:
            cands = faults.failing_edits(self.sim, r)
            if cands:
                sites = sorted({c["expect_site"] for c in cands})
                site = r.choice(sites)               # uniform over crash sites first, then over triggering inputs
                op = r.choice([c for c in cands if c["expect_site"] == site])
                op["i"] = i
                return op
        mix = [(opgen.gen_numeric, 40), (opgen.gen_categorical, 8), (opgen.gen_hourly, 8), (opgen.gen_link, 10),
               (opgen.gen_list_assign, 8), (opgen.gen_list_op, 8), (opgen.gen_group, 5), (opgen.gen_add_job, 4)]
        return opgen.gen_edit(r, spec, self.cfg, i, mix=mix)

    @staticmethod
    def revert_key(op):
        if op["op"] == "group":
            return tuple(sorted((ch["obj"], ch["attr"]) for ch in op["changes"]))
        return ((op.get("obj"), op.get("attr")),)

    def step(self, i, op):
        sim = self.sim
        if op.get("revert"):
            status, ret = self.execute(op)
            idx = op.get("broken_index", 0)
            if status == "ok":
                if idx < len(self.broken):
                    self.broken.pop(idx)
                self.attempts_without_progress = 0
                self.res.count("reverts_ok")
                if not self.broken:
                    self.recovering = False
                    self.extra_while_broken = 0
                    self.episodes += 1
                    self.res.count("recoveries_completed")
                    oracle = "not_restored_after_revert"
                    if getattr(self, "failed_revert_in_episode", False):
                        # a re-assignment of a previous value raised earlier in this episode (another failure was
                        # still installed) and was retried
                        oracle = "not_restored_after_retried_revert"
                    self.failed_revert_in_episode = False
                    self.compare_with_reference(i, op, "C15", oracle)
                return "ok"
            if status == "hang":
                raise Violation("C15", "hang", {ret.site}, f"re-assigning the previous value does not return in {ret.site}",
                                i, op_kind(op))
            if status == "skip":
                self.broken.pop(idx) if idx < len(self.broken) else None
                return "skip"
            self.res.count("revert_raised_while_others_broken" if len(self.broken) > 1 else "revert_raised")
            self.failed_revert_in_episode = True
            self.attempts_without_progress = getattr(self, "attempts_without_progress", 0) + 1
            site = crash_site(ret) or type(ret).__name__
            if len(self.broken) == 1 or self.attempts_without_progress > 3 * len(self.broken) + 3:
                raise Violation("C15", "unrecoverable", {site},
                                f"re-assigning the previous value of {self.revert_key(op)} raises "
                                f"{type(ret).__name__}: {str(ret)[:160]} (failed inputs still installed: "
                                f"{[self.revert_key(b[0]) for b in self.broken]})", i, op_kind(op))
            return "raised"
        revert = self.revert_op_for(op)
        status, ret = self.execute(op)
        if status == "skip":
            return "skip"
        if status == "hang":
            if op.get("fault"):
                raise Violation("C15", "hang", {ret.site}, f"failing edit does not return in {ret.site}", i, op_kind(op))
            self.stop = "hang_in_plain_edit"
            return "hang"
        if status == "raised":
            site = crash_site(ret)
            if site is None:
                # refused by validation (nothing installed since the D4 repair) or crashed outside update functions
                self.res.count("raised_outside_update_functions:" + type(ret).__name__)
                if self.broken:
                    # a refusal while broken: nothing to revert for this op
                    return "refused"
                self.stop = "op_raised_outside_update"
                return "raised"
            self.res.count("fault:" + site)
            self.res.count("crash_exception:" + type(ret).__name__)
            if revert is not None:
                self.broken.append((revert, site))
            else:
                self.stop = "unrevertable_op_failed"
            return "failed"
        if op.get("fault"):
            self.res.count("fault_did_not_fire:" + op.get("expect_site", "?"))
        if not self.broken:
            self.compare_with_reference(i, op, "C15", "edit_after_recovery_deviates" if self.episodes else "edit_deviates")
        return "ok"

    def on_end(self):
        # a run must not end while broken: recover now (in failure order, then retries)
        sim = self.sim
        guard = 0
        while self.broken and guard < 4 * len(self.broken) + 4:
            guard += 1
            revert, site = self.broken[0]
            op = dict(revert)
            op["i"] = len(self.res.ops)
            op["broken_index"] = 0
            self.res.ops.append(op)
            st = self.step(op["i"], op)
            self.res.events.append((op["i"], op_kind(op), st))
            if st == "raised":
                self.broken.append(self.broken.pop(0))


MONITORS["C15"] = C15


# ---------------------------------------------------------------------------------------------------
# C05

class C05(FaultMonitorMixin, BaseMonitor):
    """A what-if simulation never disturbs the baseline model."""
    prop = "C05"

    def __init__(self, sim, k, cfg, res, opts):
        super().__init__(sim, k, cfg, res, opts)
        self.check_next_edit = False

    def next_op(self, i):
        r = self.k.rng("op", i)
        spec = self.sim.spec
        inside = set(S.closure(spec))
        if r.random() < 0.5:
            extra, tag = None, None
            x = r.random()
            if x < 0.18:
                present = sorted({o["cls"] for n_, o in spec["objs"].items() if n_ in inside})
                entries = [e for e in faults.catalogue(spec, r.choice(present)) if e["strong"]]
                if entries:
                    e = r.choice(entries)
                    extra, tag = [{"obj": e["obj"], "attr": e["attr"], "value": e["value"]}], "F1:" + e["fault"]
            elif x < 0.45:
                # (devices=[] is left to C15: combined with a change that empties the journey it does not raise but
                # aliases "no value" objects, a degenerate configuration outside the envelope)
                cands = [c for c in faults.failing_edits(self.sim, r) if c["op"] == "set" and c["attr"] != "devices"]
                if cands:
                    c = r.choice(cands)
                    extra, tag = [{"obj": c["obj"], "attr": c["attr"], "value": c["value"]}], "F2:" + c["expect_site"]
            op = opgen.gen_simulate(r, spec, self.cfg, inside, i, extra_changes=extra)
            if op is not None:
                if tag:
                    op["fault"] = tag
                return op
        return opgen.gen_edit(r, spec, self.cfg, i)

    def snapshot_diff(self, before, i, op, oracle, what):
        after, pins = identity.snapshot(self.sim.world)
        d = identity.diff(before, after)
        self.res.count("identity_snapshots")
        if d:
            where = {f"{self.cls_of(k_[0])}.{k_[1]}" for k_, _ in d if k_[0] in self.sim.spec["objs"]}
            raise Violation("C05", oracle, where or {"?"}, f"{what}: " + "; ".join(
                f"{k_}: {why}" for k_, why in d[:5]) + (f" (+{len(d) - 5} more)" if len(d) > 5 else ""), i, op_kind(op))

    def step(self, i, op):
        sim = self.sim
        if op["op"] != "simulate":
            status, ret = self.execute(op)
            if status == "raised":
                self.res.count("ended_on_raise:" + type(ret).__name__)
                self.stop = "op_raised"
                return "raised"
            if status == "hang":
                self.stop = "hang_in_plain_edit"
                return "hang"
            if status == "ok" and self.check_next_edit:
                self.compare_with_reference(i, op, "C05", "edit_after_simulation_deviates")
                self.check_next_edit = False
            return status
        before, pins = identity.snapshot(sim.world)
        status, ret = self.execute(op)
        self.res.count("date:" + op.get("date_kind", "?"))
        if status == "skip":
            return "skip"
        if status == "hang":
            raise Violation("C05", "hang", {ret.site}, f"simulation does not return in {ret.site}", i, op_kind(op))
        if status == "raised":
            site = crash_site(ret)
            self.res.count("fault:simulation_raised_in_" + (site or "validation:" + type(ret).__name__))
            self.snapshot_diff(before, i, op, "baseline_changed_by_failed_simulation",
                               f"simulation raised {type(ret).__name__} ({str(ret)[:100]})")
            self.check_next_edit = True
            return "raised"
        mu = ret
        self.res.count("simulations_created")
        self.res.count("simulated_values", len(getattr(mu, "values_to_recompute", [])))
        self.snapshot_diff(before, i, op, "baseline_changed_by_simulation", "after the simulation was created")
        on = False
        for n_, t in enumerate(op.get("toggles", [])):
            try:
                with runner_watchdog():
                    if t == "set":
                        mu.set_updated_values()
                        on = True
                    else:
                        mu.reset_values()
                        on = False
            except Exception as e:
                raise Violation("C05", "toggle_raised", {f"{t}:{type(e).__name__}"},
                                f"toggle #{n_} ({t}) raised {type(e).__name__}: {str(e)[:160]}", i, op_kind(op))
            self.res.count("toggle:" + t)
            if not on:
                self.snapshot_diff(before, i, op, "baseline_changed_by_toggles",
                                   f"after toggles {op['toggles'][:n_ + 1]}")
        if on:
            mu.reset_values()
            self.snapshot_diff(before, i, op, "baseline_changed_by_toggles", f"after toggles {op['toggles']} + reset")
        self.check_next_edit = True
        return "ok"


def runner_watchdog():
    from efsim.runner import watchdog
    return watchdog()


MONITORS["C05"] = C05


# ---------------------------------------------------------------------------------------------------
# C13

class C13(FaultMonitorMixin, BaseMonitor):
    """Saving a system to JSON and loading it back loses nothing."""
    prop = "C13"

    def __init__(self, sim, k, cfg, res, opts):
        super().__init__(sim, k, cfg, res, opts)
        self.restarted = False

    @staticmethod
    def spec_generator(k, cfg, index):
        if index % 2 == 0:
            cfg["builders"] = True
        return gen.gen_spec(k, cfg)

    def next_op(self, i):
        r = self.k.rng("op", i)
        if i > 0 and r.random() < 0.3:
            return {"op": "restart", "with_calc": r.random() < 0.5, "v9": r.random() < 0.3, "fault": "F3", "i": i}
        if i == self.opts.get("n_ops_hint", 10) - 1 and not self.restarted:
            return {"op": "restart", "with_calc": r.random() < 0.5, "v9": False, "fault": "F3", "i": i}
        return opgen.gen_edit(r, self.sim.spec, self.cfg, i)

    def step(self, i, op):
        sim = self.sim
        if op["op"] != "restart":
            status, ret = self.execute(op)
            if status == "raised":
                self.res.count("ended_on_raise:" + type(ret).__name__)
                self.stop = "op_raised"
                return "raised"
            if status == "hang":
                if self.restarted:
                    raise Violation("C13", "hang_after_reload", {ret.site}, f"edit on the reloaded system hangs in "
                                    f"{ret.site}", i, op_kind(op))
                self.stop = "hang_in_plain_edit"
                return "hang"
            if status == "ok" and self.restarted:
                # "the loaded system is live: edits on it behave exactly as on a freshly built one"
                self.compare_with_reference(i, op, "C13", "edit_on_reloaded_system_deviates")
            return status
        # ---- the restart fault
        spec = sim.spec
        inside = S.closure(spec)
        old_world = sim.world
        before_inputs = {}
        for n in inside:
            o = old_world.objs[n]
            for a, v in spec["objs"][n]["attrs"].items():
                if v is None or v[0] in ("ref", "refs", "str"):
                    continue
                val = getattr(o, a)
                src = getattr(val, "source", None)
                before_inputs[(n, a)] = (C.norm(val), val.label, (src.name, src.link) if src is not None else None)
        ids_before = {n: old_world.objs[n].id for n in inside}
        # attribution: the world being saved must itself agree with the reference
        try:
            ref = reference_world(sim)
        except Exception as e:
            self.res.count("left_envelope:" + type(e).__name__)
            self.stop = "left_envelope"
            return "skip"
        saved_ok = not C.diff_snapshots(C.calc_snapshot(old_world, inside), C.calc_snapshot(ref, inside), self.cls_of)
        if not saved_ok:
            self.res.count("inconclusive_engine_defect")
            self.stop = "inconclusive_engine_defect"
            return "skip"
        status, ret = self.execute(op)
        tag = ("calc" if op.get("with_calc") else "inputs") + ("+v9" if op.get("v9") else "")
        self.res.count("fault:restart_" + tag)
        if status == "hang":
            raise Violation("C13", "hang", {ret.site}, f"save/load does not return in {ret.site}", i, op_kind(op))
        if status == "raised":
            raise Violation("C13", "reload_raised", {f"{type(ret).__name__}:{tag}"},
                            f"saving/loading ({tag}) raised {type(ret).__name__}: {str(ret)[:200]}", i, op_kind(op))
        saved, new_world = ret
        bad = []
        missing = [n for n in inside if n not in new_world.objs]
        if missing:
            raise Violation("C13", "objects_lost", {self.cls_of(n) for n in missing},
                            f"objects of the system missing after reload: {missing}", i, op_kind(op))
        for n in inside:
            o = new_world.objs[n]
            if type(o).__name__ != spec["objs"][n]["cls"]:
                bad.append(((n, "<class>"), f"{type(o).__name__} != {spec['objs'][n]['cls']}"))
            if o.id != ids_before[n]:
                bad.append(((n, "id"), f"{o.id} != {ids_before[n]}"))
            for a, v in spec["objs"][n]["attrs"].items():
                if v is None:
                    continue
                got = getattr(o, a, None)
                if v[0] == "ref":
                    if got is None or got.name != v[1]:
                        bad.append(((n, a), f"link {getattr(got, 'name', None)} != {v[1]}"))
                elif v[0] == "refs":
                    if got is None or [x.name for x in got] != list(v[1]):
                        bad.append(((n, a), f"list {[x.name for x in got] if got is not None else None} != {v[1]}"))
                elif v[0] == "str":
                    if got != v[1]:
                        bad.append(((n, a), f"{got!r} != {v[1]!r}"))
                else:
                    want_norm, want_label, want_src = before_inputs[(n, a)]
                    if got is None:
                        bad.append(((n, a), "input missing"))
                        continue
                    ok, why = C.phys_equal(C.norm(got), want_norm, atol=0.0)
                    if not ok:
                        bad.append(((n, a), f"input value: {why}"))
                    if got.label != want_label:
                        bad.append(((n, a), f"label {got.label!r} != {want_label!r}"))
                    src = getattr(got, "source", None)
                    if ((src.name, src.link) if src is not None else None) != want_src:
                        bad.append(((n, a), f"source {src} != {want_src}"))
        if bad:
            raise Violation("C13", "reloaded_inputs_or_links_differ", {f"{self.cls_of(k_[0])}.{k_[1]}" for k_, _ in bad},
                            self.fmt(bad), i, op_kind(op))
        # the reloaded world replaces the live one; objects that were not saved (unreachable) are forgotten
        for n in list(spec["order"]):
            if n not in new_world.objs:
                del spec["objs"][n]
                spec["order"].remove(n)
        sim.world = new_world
        self.restarted = True
        diffs = C.diff_snapshots(C.calc_snapshot(new_world, S.closure(spec)), C.calc_snapshot(ref, S.closure(spec)),
                                 self.cls_of)
        if diffs:
            raise Violation("C13", "reloaded_results_differ", self.where_of(diffs), self.fmt(diffs), i, op_kind(op))
        from efootprint.api_utils.system_to_json import system_to_json
        again = system_to_json(new_world.system, save_calculated_attributes=False)
        first = system_to_json(old_world.system, save_calculated_attributes=False)
        if again != first:
            keys = [k_ for k_ in set(again) | set(first) if again.get(k_) != first.get(k_)]
            raise Violation("C13", "re_export_differs", set(keys), f"re-exported JSON differs in sections {keys}", i,
                            op_kind(op))
        self.res.count("round_trips_checked")
        return "ok"


MONITORS["C13"] = C13


# ---------------------------------------------------------------------------------------------------
# C18

READ_KINDS = ["explain", "str", "to_json", "sums", "plot_system", "plot_diffs", "plot_values", "calculus_graph",
              "object_graph"]


class C18(FaultMonitorMixin, BaseMonitor):
    """A computed model is a fixed point, and computing / reading never alters inputs."""
    prop = "C18"

    @staticmethod
    def spec_generator(k, cfg, index):
        if index % 2 == 0:
            cfg["builders"] = True
        return gen.gen_spec(k, cfg)

    def next_op(self, i):
        """Phase 1: edits interleaved with read-side requests.  Phase 2 (the tail of the run): explicit
        recomputation requests and reads only - 'for all systems after any edit history, for every subset/order of
        explicit recomputation requests'.  (Edits *after* explicit requests are not generated: see DESIGN 3.C18.)"""
        r = self.k.rng("op", i)
        spec = self.sim.spec
        inside = S.closure(spec)
        n_ops = self.opts.get("n_ops_hint", 10)
        if not self.tail and (i >= n_ops - 1 - self.k.randint(2, max(2, n_ops // 2), "tail-length")):
            self.tail = True
        x = r.random()
        if self.tail and x < 0.65:
            mode = r.choice(["random", "random", "canonical", "reverse", "repeat", "system", "single"])
            objs = [n for n in inside if n != "sys"]
            if mode == "system" or not objs:
                targets = ["sys!"] * r.choice([1, 2])
            elif mode == "single":
                targets = [r.choice(objs)]
            else:
                sub = [n for n in objs if r.random() < 0.6] or objs[:1]
                if mode == "random":
                    r.shuffle(sub)
                elif mode == "reverse":
                    sub = list(reversed(sub))
                elif mode == "repeat":
                    sub = sub + [r.choice(sub) for _ in range(3)]
                    r.shuffle(sub)
                targets = sub
                if r.random() < 0.3:
                    targets = targets + ["sys"]
            return {"op": "recompute", "targets": targets, "mode": mode, "fault": "F5", "i": i}
        if self.tail or x < 0.3:
            kind = r.choice(READ_KINDS)
            objs = [n for n in inside]
            targets = [r.choice(objs) for _ in range(r.choice([1, 2, 4]))]
            return {"op": "read", "kind": kind, "targets": targets, "with_calc": r.random() < 0.7,
                    "cumsum": r.random() < 0.5, "fault": "F6", "i": i}
        return opgen.gen_edit(r, spec, self.cfg, i)

    def on_start(self):
        self.clean = True
        self.tail = False

    def snapshots(self):
        inside = S.closure(self.sim.spec)
        return (C.calc_snapshot(self.sim.world, inside), C.input_snapshot(self.sim.world, self.sim.spec, inside))

    def step(self, i, op):
        sim = self.sim
        if op["op"] not in ("recompute", "read"):
            status, ret = self.execute(op)
            if status == "raised":
                self.res.count("ended_on_raise:" + type(ret).__name__)
                self.stop = "op_raised"
                return "raised"
            if status == "hang":
                self.stop = "hang_in_plain_edit"
                return "hang"
            return status
        # attribution: requests are judged only on a model that agrees with the rebuilt reference
        try:
            ref = reference_world(sim)
        except Exception as e:
            self.res.count("left_envelope:" + type(e).__name__)
            self.stop = "left_envelope"
            return "skip"
        inside = S.closure(sim.spec)
        if C.diff_snapshots(C.calc_snapshot(sim.world, inside), C.calc_snapshot(ref, inside), self.cls_of):
            self.res.count("inconclusive_engine_defect")
            self.stop = "inconclusive_engine_defect"
            return "skip"
        calc0, in0 = self.snapshots()
        if op["op"] == "read":
            status, ret = self.execute(op)
            self.res.count("fault:read_" + op["kind"])
            if status == "skip":
                return "skip"
            if status == "hang":
                raise Violation("C18", "hang", {ret.site}, f"{op['kind']} does not return in {ret.site}", i, op_kind(op))
            if status == "raised":
                # a read that raises is a robustness problem outside the statement; what it did before raising is judged
                self.res.count(f"read_raised:{op['kind']}:{type(ret).__name__}")
            self.compare(i, op, calc0, in0, f"read:{op['kind']}")
            return "ok" if status == "ok" else "raised"
        # recompute requests one by one, so that a change is pinned to the request that exposed it
        for n_, t in enumerate(op["targets"]):
            single = {"op": "recompute", "targets": [t]}
            status, ret = self.execute(single)
            self.res.count("fault:recompute_request")
            if status == "skip":
                continue
            if status == "hang":
                raise Violation("C18", "hang", {ret.site}, f"recomputing {t} does not return in {ret.site}", i, op_kind(op))
            if status == "raised":
                self.res.count(f"recompute_raised:{type(ret).__name__}")
            self.compare(i, op, calc0, in0, f"recompute request #{n_} ({t})")
        return "ok"

    def compare(self, i, op, calc0, in0, what):
        calc1, in1 = self.snapshots()
        d_in = C.diff_snapshots(in0, in1, self.cls_of)
        if d_in:
            raise Violation("C18", "input_changed", self.where_of(d_in), f"after {what}: " + self.fmt(d_in), i, op_kind(op))
        d = C.diff_snapshots(calc0, calc1, self.cls_of)
        self.res.count("values_compared", len(calc1))
        if d:
            raise Violation("C18", "not_a_fixed_point" if op["op"] == "recompute" else "calculated_value_changed_by_read",
                            self.where_of(d), f"after {what}: " + self.fmt(d), i, op_kind(op))


MONITORS["C18"] = C18
