"""Fault catalogues: invalid values (C14) and values that make a recomputation raise (C15).

A fault is a concrete JSON description; nothing here throws inside library code: faults are *natural*,
i.e. values handed to the public API for which the real code raises where it really can.
"""
from efsim import spec as S, gen

STRONG, WEAK = True, False   # strong: the statement requires a refusal; weak: *if* refused, nothing may change


def other_dimension_unit(unit):
    from efootprint.constants.units import u
    dim = u.Quantity(1.0, unit).dimensionality
    for cand in ("kg", "s", "W", "dimensionless"):
        if u.Quantity(1.0, cand).dimensionality != dim:
            return cand
    return "m"


def can_be_negative(cls_name, attr):
    return attr in S.classes()[cls_name].attributes_that_can_have_negative_values()


def has_allowed_list(cls_name, attr):
    cls = S.classes()[cls_name]
    return attr in cls.list_values() or attr in cls.conditional_list_values()


def invalid_values(spec, name, attr):
    """[(fault kind, bad value, strong?)] for the constructor parameter `attr` of object `name`."""
    o = spec["objs"][name]
    cls_name = o["cls"]
    kind = dict(S.params_of(cls_name)).get(attr)
    cur = o["attrs"].get(attr)
    out = []
    hourly = ["h", "2025-01-01 00:00:00", [1.0, 2.0, 3.0], "dimensionless"]
    if kind in ("q", "optq"):
        unit = cur[2] if cur and cur[0] == "q" else gen.NUM_DEFAULTS.get(cls_name, {}).get(attr, (1, "dimensionless"))[1]
        mag = cur[1] if cur and cur[0] == "q" else 1.0
        out.append(("wrong_dimension", ["q", 1.5, other_dimension_unit(unit)], STRONG))
        if not can_be_negative(cls_name, attr):
            out.append(("negative", ["q", -(abs(mag) or 1.0), unit], STRONG))
        out.append(("wrong_type_float", ["raw", 3.5], STRONG))
        out.append(("wrong_type_str", ["raw", "12 GB"], STRONG))
        out.append(("wrong_type_source_object", ["s", "abc"], STRONG))
        out.append(("wrong_type_hourly", hourly, STRONG))
        if kind == "q":
            out.append(("none_for_required_quantity", ["none"], WEAK))
        if attr == "fixed_nb_of_instances" and cls_name in S.SERVER_CLASSES and o["attrs"]["server_type"][1] != "on-premise":
            out.append(("not_allowed_for_current_server_type", ["q", 7.0, "dimensionless"], STRONG))
    elif kind == "h":
        out.append(("wrong_type_quantity", ["q", 1.0, "dimensionless"], STRONG))
        out.append(("wrong_type_float", ["raw", 3.5], STRONG))
        out.append(("wrong_type_list", ["raw", [1.0, 2.0]], STRONG))
        out.append(("hourly_wrong_dimension", ["h", cur[1], list(cur[2]), "kg"], WEAK))
        out.append(("hourly_other_length", ["h", cur[1], list(cur[2]) + [1.0, 2.0], cur[3]], WEAK))
    elif kind == "obj":
        out.append(("wrong_type_float", ["raw", 3.5], STRONG))
        out.append(("wrong_type_str", ["raw", "autoscaling"], STRONG))
        if has_allowed_list(cls_name, attr):
            out.append(("not_in_allowed_list", ["s", "bogus-value"], STRONG))
            out.append(("quantity_not_in_allowed_list", ["q", 1.0, "dimensionless"], STRONG))
        if attr == "model_name":
            prov = o["attrs"]["provider"][1]
            other = [p for p in sorted(gen.GENAI_MODELS) if p != prov][0]
            out.append(("not_allowed_for_current_provider", ["s", gen.GENAI_MODELS[other][0]], STRONG))
        if attr == "instance_type":
            prov = o["attrs"]["provider"][1]
            other = [p for p in sorted(gen.CLOUD_INSTANCES) if p != prov][0]
            out.append(("not_allowed_for_current_provider", ["s", gen.CLOUD_INSTANCES[other][0]], STRONG))
        if attr == "provider":
            table = gen.GENAI_MODELS if cls_name == "GenAIModel" else gen.CLOUD_INSTANCES
            other = [p for p in sorted(table) if p != cur[1]][0]
            out.append(("key_change_invalidating_dependent_value", ["s", other], STRONG))
        if attr == "server_type" and o["attrs"].get("fixed_nb_of_instances", ["e"])[0] != "e":
            out.append(("key_change_invalidating_dependent_value", ["s", "autoscaling"], STRONG))
    elif kind == "list":
        ok_classes = {"jobs": S.JOB_CLASSES, "uj_steps": ("UsageJourneyStep",), "devices": ("Device",),
                      "usage_patterns": ("UsagePattern",)}[attr]
        wrong = [n for n in spec["order"] if spec["objs"][n]["cls"] not in ok_classes
                 and spec["objs"][n]["cls"] != "System"]
        if wrong:
            out.append(("list_with_wrong_class", ["refs", list(cur[1]) + [wrong[0]]], STRONG))
            out.append(("list_only_wrong_class", ["refs", [wrong[-1]]], STRONG))
        out.append(("list_with_non_object", ["rawrefs", list(cur[1]), 3.5], STRONG))
        out.append(("wrong_type_quantity", ["q", 1.0, "dimensionless"], STRONG))
    elif kind == "link":
        from typing import get_origin  # noqa
        import inspect
        ann = inspect.signature(S.classes()[cls_name].__init__).parameters[attr].annotation
        wrong = [n for n in spec["order"] if not issubclass(S.classes()[spec["objs"][n]["cls"]], ann)
                 and spec["objs"][n]["cls"] != "System"]
        if wrong:
            out.append(("link_wrong_class", ["ref", wrong[0]], WEAK))
        out.append(("wrong_type_quantity", ["q", 1.0, "dimensionless"], STRONG))
        out.append(("wrong_type_float", ["raw", 3.5], STRONG))
    return out


def catalogue(spec, cls_name):
    """All (object, parameter, fault kind, value, strong) for the objects of class `cls_name` in the spec."""
    out = []
    for n in spec["order"]:
        if spec["objs"][n]["cls"] != cls_name:
            continue
        for attr, kind in S.params_of(cls_name):
            if kind in ("name", "str"):
                continue
            for fk, val, strong in invalid_values(spec, n, attr):
                out.append({"obj": n, "attr": attr, "fault": fk, "value": val, "strong": strong})
        break   # one object per class is enough for the enumeration
    return out
