#!/venv/bin/python
"""Regenerate /verif/MANIFEST.json from the table below (keeps checks / not_applicable consistent)."""
import json, subprocess
NA = {
"C02":"Arithmetic identity between views of one computed model (total = sum of parts, five views agree, finiteness): a pure function of the model description with no operation order, fault, restart or schedule in it; its only history-dependent aspect (cached total_footprint) is compared with a rebuilt system by C01.",
"C03":"Conservation of counts from journey starts to job load is a pure function of start series, step and request durations and multiplicities; the hard cases are input-space hour boundaries, not schedules or faults.",
"C04":"Sizing inequalities and raise/no-raise behaviour are a pure function of loads and capacities; the simulator uses those raises as its natural fault source (C15) but does not judge whether a raise was warranted.",
"C06":"Relates two pure computations on one description (simulated vs really-updated values, date filtering); no operation order or fault in the statement. Its rejection clause (naive/outside dates) is exercised as a C05 fault under C05's oracle.",
"C09":"Algebra of free-standing value objects: no model state, no history, nothing to schedule or fault.",
"C10":"Metamorphic relation between two builds of physically equal descriptions; input re-expression, not a schedule or fault.",
"C11":"Pure function of (naive hourly series, IANA zone); calendar input space only.",
"C12":"Metamorphic relation between two builds (one driver scaled by k); no history, fault or schedule.",
"C17":"Equivalence of two descriptions (builder object vs plain object with derived parameters). Its one history-dependent clause (derived parameters refreshed when a builder input changes) is covered by C01, whose topologies include every builder class.",
"C20":"Each helper is a pure function of its arguments (calendar arithmetic); nothing to schedule or fault."}
CHECKS = {
"C01": ("exploration", "3.C01",
  "Seeded search over edit histories on generated sharing topologies: after every accepted operation every calculated attribute of every object reachable from the system is compared hour by hour with a system rebuilt from the same final inputs; plus the before/after reference totals. Sampling evidence, not proof: a clean batch bounds the defect rate of histories of this shape.",
  "Trusts the library's from-scratch computation as the reference (formula errors common to both are invisible), pint/pandas, and the 1e-9 relative tolerance; histories of <= 10 (quick) / 20 (thorough) operations on <= 3 usage patterns.",
  "deterministic simulation: seeded operation histories vs rebuilt reference model, every step"),
"C05": ("exploration", "3.C05",
  "Seeded histories in which dated what-if simulations (1-3 changes: numeric, categorical, hourly, link, list and mixtures; dates at the first, interior and last hour, before/after/far outside the period, naive) are created at random points of an edit history, with invalid values (refused by validation) and state-derived failing values (recomputation raising midway at every raising update function) injected into the change list, followed by random set/reset toggle strings. Oracle: an identity snapshot of the whole baseline (same value objects for every input and calculated value, same link targets, same dependency edges as id sets with no non-current reference, labels, sources) is unchanged after the constructor returns or raises and after every toggle string ending in the off state; the first accepted edit after a simulation is compared with a rebuilt reference.",
  "Book-keeping attributes (previous_*, all_changes, simulation, twins, contextual containers) are excluded from 'unchanged'; edge lists compared as sets of node ids; the degenerate empty-device-list fault is excluded.",
  "deterministic simulation: seeded histories with what-if simulations, validation and recomputation faults, toggle sequences; identity snapshot oracle"),
"C07": ("exploration", "3.C07",
  "Monitor over seeded mixed histories (every edit kind, refused edits, failed recomputations and their recovery, what-if simulations with toggles, save/reload restarts, read-side traffic): after every step the explanation tree of every calculated attribute (and dict entry) of every object of the system is walked down to its true leaves; explain() must not raise, attached values must be labelled, every node recorded as a sum, difference, product or quotient of two operands is re-evaluated with pint/pandas directly on the operands' current raw values (hourly series aligned by timestamp with missing = 0, empty neutral for +, absorbing for *) and must reproduce the node's value and dimension, and every value-bearing leaf must have a label and a source and, when it is a calculated attribute of an object of the system, be a deliberately sourced constant.",
  "Operators other than + - * / (max, ceil, shift, conversion to UTC, data look-ups...) are not re-evaluated (the statement names the four); hourly differences are re-evaluated only on identical indexes; the known inline unit constants (D7) are stepped over so that exploration continues and are reported as a KNOWN-FINDING.",
  "deterministic simulation: explanation-tree monitor after every step of seeded histories with faults"),
"C08": ("exploration", "3.C08",
  "Monitor over the same mixed histories: after every step, for every value currently held by an object of the system - (a) every listed ancestor / child is itself currently held (nothing detached or superseded), (b) every edge is listed on both ends at node-id level (dict entries share the id of their dict), (c) the id-level graph has no cycle, (d) to_json(with calculated data) exports exactly those edges. Completeness at every plain input edit: the set of calculated attributes that differ between two systems rebuilt from the inputs before and after the edit must be included in the descendants the live graph listed for that input before the edit; and the update order derived for that input has no repeated node, covers exactly the descendants and lists every node after all of its ancestors.",
  "Completeness uses two from-scratch builds per edit, so it is independent of any staleness of the live values; topology-changing edits feed only the consistency part; edge lists are compared as sets.",
  "deterministic simulation: calculation-graph monitor + completeness from two rebuilt references per edit"),
"C13": ("exploration", "3.C13",
  "Restart fault inside seeded edit histories: at random points (several per run) the live model is saved with system_to_json (with or without calculated attributes), serialised to text, every live object is dropped and the text is loaded back with json_to_system - optionally rewritten to the previous major layout first; the history then continues on the reloaded objects. Oracle right after reload: same objects, classes, ids, links, labels, sources and input values (hourly inputs are multiples of 1/8, so the documented 3-decimal rounding is lossless), all calculated values equal to a system rebuilt from the inputs, re-export equal to the first export; afterwards every accepted edit on the reloaded system is compared with a rebuilt reference (the loaded system is live).",
  "Attribution: a restart is judged only if the world being saved agrees with the reference; re-export equality is checked on the input part (save_calculated_attributes=False); the v9 rewrite covers the one documented upgrade handler (Hardware -> Device).",
  "deterministic simulation: restart (save / drop / reload) faults inside seeded histories; rebuilt reference"),
"C14": ("fault_enumeration", "3.C14",
  "Fault enumeration: for every (class, constructor parameter) pair of the public class list, every invalid-value kind of the catalogue (wrong dimension, negative, wrong types, wrong-class list members, values outside allowed / conditional lists, key changes invalidating a dependent value) is injected at construction, as a single assignment, inside grouped updates (both orders) and through the list mutators on a computed model holding all 18 classes; the call must raise and an identity snapshot of the whole model (same value objects, same links, same dependency edges) must be unchanged. Further runs place catalogue faults at random points of seeded edit histories and compare the next accepted edit with a rebuilt reference.",
  "Catalogue kinds are those named by the statement; None for a required quantity, hourly series of another length/dimension and wrong-class scalar links are injected with the weaker oracle 'if refused, nothing changed'. Book-keeping attributes (previous_*, all_changes, contextual containers) are excluded from 'unchanged'.",
  "deterministic simulation with enumerated invalid-input faults; identity snapshot oracle"),
"C15": ("fault_enumeration", "3.C15",
  "Fault enumeration over crash points: every update function that can raise (available RAM/compute per instance, on-premise and storage fixed instance counts, negative cumulative storage, plus the naturally failing sites found while building: zero request duration, empty device list) is reached through each input that can trigger it, with magnitudes derived from the live state so that the real code raises; failures are nested and interleaved with valid edits, then every failed input is re-assigned its previous value in a drawn order (retries allowed). After recovery all calculated values must equal a system rebuilt from the inputs, and so must every later edit (control-twin attribution: the same history without faults must itself agree with the reference).",
  "Faults are natural (public API values), never synthetic exceptions; margins >= 5 % from every threshold; a violation is reported only if the fault-free replay of the same history is clean.",
  "deterministic simulation with enumerated recomputation-failure faults and recovery; rebuilt reference + control twin"),
"C16": ("exploration", "3.C16",
  "Seeded histories made only of link operations (every list mutator with present, absent, duplicate, no-op and out-of-range arguments, list and scalar link assignments, equal/self assignments, object creation+linking, self_delete of referenced and unreferenced objects, attempts to create a second System over shared objects) checked after every operation against a plain-Python link model: exception parity with the built-in list, return values, list contents, reverse look-ups (containers, jobs of servers/storages/services, steps/patterns/networks of jobs, patterns of journeys/networks/countries, systems of every object), attachment of the live list.",
  "Arguments are always modeling objects of the class the list accepts (wrong classes are C14's subject); sort/reverse and slice assignment/deletion are not generated (DESIGN 2.3); an exception thrown from inside an update_<attr> function ends the run without a verdict (recomputation faults are C15's subject).",
  "deterministic simulation: seeded link-operation histories vs plain-Python link model"),
"C19": ("exploration", "3.C19",
  "Schedule exploration over order-irrelevant choices: one generated model and one edit history are executed as four variants in one process (other keyed identifiers, i.e. a fresh deal of every set order; another topological creation order; permuted system.usage_patterns / devices / same-step jobs at construction and in later list assignments) and, for the 'different processes' clause, re-executed in a second set of interpreters started with other PYTHONHASHSEED values. After construction and after every operation all variants must agree on accept/raise and on every calculated value (physical comparison, 1e-9); final values are shipped to the parent and compared across processes.",
  "Discontinuity guard: a step is excused (counted) when a raw number of instances is within 1e-7 of an integer, where ceil() turns float noise into a unit step; index-based list operations are not generated (they are not order-irrelevant).",
  "deterministic simulation: same history under several identifier / creation-order / list-order / hash-seed schedules"),
"C18": ("exploration", "3.C18",
  "Schedule exploration: after a seeded edit history (interleaved with read-side requests: explain, str/repr, to_json with calculated data, summed-over-period views, plotly and matplotlib plots, calculus and object-relationship graph exports) the scheduler issues explicit recomputation requests - compute_calculated_attributes() on a drawn subset of the objects in canonical, reverse, random or repeated order, and system.after_init() - one at a time. After every single request and every read, every calculated value must be physically equal to its value before and every input must keep its physical value (units may change).",
  "Judged only on a model that agrees with a rebuilt reference (attribution); explicit recomputation requests are issued at the tail of a run, never followed by edits (the statement quantifies over requests after an edit history); a read that raises is counted, not reported (robustness is outside the statement), but what it changed before raising is judged.",
  "deterministic simulation: seeded scheduler over explicit recomputation and read requests; before/after snapshots"),
}
PENDING = ["C05","C07","C08","C13","C14","C15","C16","C18","C19"]
for pid in PENDING:
    if pid not in CHECKS:
        NA[pid] = "claimed in DESIGN.md (simulation target), but its check is not built yet at this commit; nothing is asserted about it here"
commits = subprocess.run(["git","-C","/repo","log","--format=%h %s","7cd257a..HEAD"],capture_output=True,text=True).stdout.strip().splitlines()
hook_commits = [c.split()[0] for c in commits if not c.split(" ",1)[1].startswith("fix:")]
checks = []
for pid,(cat,ref,text,note,tech) in sorted(CHECKS.items()):
    checks.append({"property_id":pid,
      "quick_cmd":f"/venv/bin/python -m efsim.cli check --property {pid} --tier quick",
      "thorough_cmd":f"/venv/bin/python -m efsim.cli check --property {pid} --tier thorough",
      "evidence_file":f"/verif/evidence/{pid}.json",
      "replay_cmd_template":"/venv/bin/python -m efsim.cli replay {path}",
      "engine":"efsim",
      "level_claimed":{"category":cat,"text":text,"design_ref":ref},
      "level_note":note,"technique":tech})
m = {"version":1,"setup_cmd":"true",
 "hooks":{"guard":"EFOOTPRINT_VERIF","enable":"no hook in /repo: every seam is reachable from outside (module attribute modeling_object.uuid replaced by a keyed generator, PYTHONHASHSEED pinned by re-exec, logger level); checks import efootprint from the /repo working tree via sys.path","baseline_off_cmd":"cd /repo && /venv/bin/python -m pytest -ra -q -p no:cacheprovider --timeout=900 --continue-on-collection-errors","source_commits":hook_commits,"add_only":True},
 "engines":[{"name":"efsim","path":"/verif/efsim","serves_properties":sorted(CHECKS),"kind_free_text":"deterministic simulation (keyed PRNG, keyed object ids, pinned hash seed) of edit/fault histories on the real e-footprint library, with a rebuilt-from-spec reference model, ddmin minimisation and replay files"}],
 "checks":checks,
 "notes":"See DESIGN.md. Genuine defects repaired in /repo are 'fix:' commits listed in known_findings.json (status fixed; their witnesses are replayed as regressions by every check). Exit codes: 0 held, 1 VIOLATION, 2 harness problem.",
 "not_applicable":[{"property_id":k,"reason":v} for k,v in sorted(NA.items()) if k not in CHECKS]}
json.dump(m,open("/verif/MANIFEST.json","w"),indent=1)
print("checks:", sorted(CHECKS), "n/a:", [x["property_id"] for x in m["not_applicable"]])
