"""One simulated run: build a world from the run key, then generate-and-execute (or replay) a history of
operations while the property's monitor checks its oracles.  A run is a pure function of
(VERIF_SEED, property, run index, PYTHONHASHSEED, code) — or, in replay mode, of the recorded header and
op list alone.
"""
import gc
import time
import traceback

from efsim import env, gen, spec as S, compare as C
from efsim.prng import Keyed
from efsim.sim import Sim, OpSkipped

MAX_BUILD_ATTEMPTS = 8
OP_TIMEOUT = int(__import__("os").environ.get("EFSIM_OP_TIMEOUT", "40"))  # wall seconds; a normal op takes < 1 s


class Hang(BaseException):
    """Raised by the watchdog inside a library call that does not return (BaseException: not swallowed)."""

    def __init__(self, site):
        super().__init__(site)
        self.site = site


def _on_alarm(signum, frame):
    site = "?"
    f = frame
    while f is not None:
        fn = f.f_code.co_filename
        if fn.startswith(env.REPO):
            qual = getattr(f.f_code, "co_qualname", f.f_code.co_name)
            site = qual
            break
        f = f.f_back
    raise Hang(site)


class watchdog:
    def __init__(self, seconds=None):
        self.seconds = seconds or OP_TIMEOUT

    def __enter__(self):
        import signal
        self.old = signal.signal(signal.SIGALRM, _on_alarm)
        signal.alarm(self.seconds)

    def __exit__(self, *a):
        import signal
        signal.alarm(0)
        signal.signal(signal.SIGALRM, self.old)
        return False


class Violation(Exception):
    def __init__(self, prop, oracle, where, detail, step=None, op_kind=None):
        super().__init__(f"{prop}/{oracle} {sorted(where)} {detail}")
        self.prop = prop
        self.oracle = oracle
        self.where = sorted(where)      # set of "Class.attr" (the violation class)
        self.detail = detail
        self.step = step
        self.op_kind = op_kind

    def klass(self):
        return {"property": self.prop, "oracle": self.oracle, "where": self.where, "op_kind": self.op_kind}

    def to_json(self):
        d = self.klass()
        d.update({"detail": self.detail, "step": self.step})
        return d


def op_kind(op):
    k = op["op"]
    if k == "compound":
        return "compound:" + op.get("tag", "?")
    if k == "list":
        return "list:" + op["method"]
    if k == "set":
        return "set:" + op["value"][0]
    if k == "group":
        return "group"
    return k


def initial_spec(k, cfg, stats, generator=None, index=0, salt="probe"):
    """Draw topologies until one builds from scratch (envelope W4) with the ids of the run; returns (spec, attempt)."""
    last = None
    for attempt in range(MAX_BUILD_ATTEMPTS):
        kk = k.sub("attempt", attempt)
        if attempt == MAX_BUILD_ATTEMPTS // 2 and cfg.get("short_storage"):
            # short storage durations make Storage compare series of different windows by position (observation O3,
            # C04's subject) and can make every topology of this configuration unbuildable: relax that one knob
            cfg["short_storage"] = False
            stats["short_storage_relaxed"] = 1
        sp = generator(kk, cfg, index) if generator is not None else gen.gen_spec(kk, cfg)
        try:
            S.build_world(sp, salt)
            return sp, attempt
        except Exception as e:  # the library refuses (or crashes on) this description: outside the envelope
            stats["initial_build_refused"] = stats.get("initial_build_refused", 0) + 1
            last = e
    raise RuntimeError(f"no buildable topology in {MAX_BUILD_ATTEMPTS} attempts: {last!r}")


class RunResult:
    def __init__(self):
        self.header = {}
        self.ops = []
        self.events = []        # (i, kind, status, digest)
        self.stats = {}
        self.violation = None
        self.harness_error = None
        self.extra = {}
        self.collected = []
        self.ended = "complete"
        self.topo_sig = None

    def count(self, key, n=1):
        self.stats[key] = self.stats.get(key, 0) + n


def run(prop, monitor_cls, seed=0, index=0, n_ops=10, ops=None, header=None, digests=False, opts=None):
    """Execute one run.  If `ops`/`header` are given the run is a replay of that recorded history."""
    env.setup()
    res = RunResult()
    opts = opts or {}
    del env.FINGERPRINTS[:]
    try:
        if header is None:
            k = Keyed(seed, prop, index)
            cfg = gen.swarm_config(k)
            cfg.update(opts.get("cfg_override", {}))
            salt = f"{seed}:{prop}:{index}"
            # (probed with the very ids of the run: whether a description builds must not depend on them, but it did -
            # D31 - and a probe under other ids then let an unbuildable world through as a harness error)
            sp, attempt = initial_spec(k, cfg, res.stats, getattr(monitor_cls, "spec_generator", None), index, salt)
            header = {"property": prop, "seed": seed, "index": index, "salt": salt, "cfg": cfg, "spec": sp,
                      "attempt": attempt}
        else:
            k = Keyed(header["seed"], prop, header["index"])
            cfg, sp, salt = header["cfg"], header["spec"], header["salt"]
        res.header = header
        res.topo_sig = topo_signature(sp)
        sim = Sim(sp, salt)
        opts = dict(opts)
        opts.setdefault("n_ops_hint", len(ops) if ops is not None else n_ops)
        mon = monitor_cls(sim, k, cfg, res, opts)
        mon.on_start()
        replay = ops is not None
        n = len(ops) if replay else n_ops
        i = 0
        while i < n:
            if replay:
                op = ops[i]
            else:
                op = mon.next_op(i)
                if op is None:
                    break
            res.ops.append(op)
            mon.focus = (getattr(mon, "focus", []) + touched_objects(op))[-6:]
            try:
                status = mon.step(i, op)
            except Violation as v:
                if not getattr(mon, "continue_after_violation", False):
                    raise
                # enumeration mode: record, rebuild the live world from the spec, go on with the catalogue
                res.collected.append(v)
                sim.world = S.build_world(sim.spec, sim.salt)
                status = "violation"
            res.count("ops")
            res.count("op:" + op_kind(op))
            res.count("status:" + status)
            if digests:
                snap = C.calc_snapshot(sim.world, [n_ for n_ in S.closure(sim.spec) if n_ in sim.world.objs])
                res.events.append((i, op_kind(op), status, C.digest(snap)))
            else:
                res.events.append((i, op_kind(op), status))
            if mon.stop:
                res.ended = mon.stop
                break
            i += 1
        mon.on_end()
        if res.collected:
            res.violation = res.collected[0]
            res.ended = "violation"
    except Violation as v:
        res.violation = v
        res.ended = "violation"
    except Exception as e:
        res.harness_error = f"{type(e).__name__}: {e}\n{traceback.format_exc()}"
        res.ended = "harness_error"
    res.extra["recompute_fingerprints"] = sorted(set(env.FINGERPRINTS))
    gc.collect()
    return res


def topo_signature(sp):
    """Coarse signature of a topology: class counts + sharing tags (used for distinct-case counting)."""
    from collections import Counter
    objs = sp["objs"]
    cnt = Counter(o["cls"] for o in objs.values())
    users = Counter()
    for n, o in objs.items():
        for a, v in o["attrs"].items():
            if v is None:
                continue
            if v[0] == "ref":
                users[v[1]] += 1
            elif v[0] == "refs":
                for m in set(v[1]):
                    users[m] += 1
    shared = Counter(objs[n]["cls"] for n, c in users.items() if c > 1 and n in objs)
    return ",".join(f"{c}{cnt[c]}" for c in sorted(cnt)) + "|" + ",".join(f"{c}{shared[c]}" for c in sorted(shared))


def touched_objects(op):
    """Names an op refers to (for the generator's focus)."""
    out = []
    if "obj" in op:
        out.append(op["obj"])
    for ch in op.get("changes", []):
        out.append(ch["obj"])
    for sub in op.get("steps", []):
        out.extend(touched_objects(sub))
    v = op.get("value")
    if isinstance(v, list) and v and v[0] == "ref":
        out.append(v[1])
    return out


class BaseMonitor:
    """Common machinery: op generation hook, guarded execution, stop conditions."""
    prop = "C00"

    def __init__(self, sim, k, cfg, res, opts):
        self.sim, self.k, self.cfg, self.res, self.opts = sim, k, cfg, res, opts
        self.stop = None

    def on_start(self):
        pass

    def on_end(self):
        pass

    def next_op(self, i):
        raise NotImplementedError

    def execute(self, op):
        """-> ("ok", ret) | ("skip", None) | ("raised", exception) | ("hang", Hang)"""
        try:
            with watchdog():
                ret = self.sim.apply(op)
            return "ok", ret
        except OpSkipped:
            return "skip", None
        except Violation:
            raise
        except Hang as h:
            return "hang", h
        except Exception as e:
            return "raised", e

    def cls_of(self, name):
        return self.sim.spec["objs"][name]["cls"]

    def where_of(self, diffs):
        return {f"{self.cls_of(k[0])}.{k[1]}" for k, _ in diffs}

    def fmt(self, diffs, limit=6):
        return "; ".join(f"{k[0]}.{k[1]}: {why}" for k, why in diffs[:limit]) + (
            f" (+{len(diffs) - limit} more)" if len(diffs) > limit else "")
