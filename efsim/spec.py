"""The simulator's single-copy description of a model (the *spec*) and the builder that turns a spec
into a live object graph with the real constructors.

spec = {"objs": {name: {"cls": str, "attrs": {attr: value}, "src": {attr: [source name, link]}}},
        "order": [names in creation order]}
value  = ["q", magnitude, unit] | ["e"] | ["s", str] | ["tz", zone] | ["h", start, [values], unit]
       | ["ref", name] | ["refs", [names]] | ["str", text]
Everything is JSON-serialisable; object identity is the *name* (unique over the whole history).
"""
import copy
import inspect
from datetime import datetime

from efsim import env

LINK_KINDS = ("ref", "refs")

# creation layers: an object may only reference objects of a strictly lower layer
LAYER = {"Storage": 0, "Server": 1, "GPUServer": 1, "BoaviztaCloudServer": 1,
         "VideoStreaming": 2, "WebApplication": 2, "GenAIModel": 2,
         "Job": 3, "VideoStreamingJob": 3, "WebApplicationJob": 3, "GenAIJob": 3,
         "UsageJourneyStep": 4, "UsageJourney": 5, "Device": 0, "Country": 0, "Network": 0,
         "UsagePattern": 6, "System": 7}

SERVER_CLASSES = ("Server", "GPUServer", "BoaviztaCloudServer")
SERVICE_CLASSES = ("VideoStreaming", "WebApplication", "GenAIModel")
JOB_CLASSES = ("Job", "VideoStreamingJob", "WebApplicationJob", "GenAIJob")
SERVICE_OF_JOB = {"VideoStreamingJob": "VideoStreaming", "WebApplicationJob": "WebApplication",
                  "GenAIJob": "GenAIModel"}


def classes():
    env.setup()
    from efootprint.core.all_classes_in_order import ALL_EFOOTPRINT_CLASSES
    return {c.__name__: c for c in ALL_EFOOTPRINT_CLASSES}


_PARAMS = {}


def params_of(cls_name):
    """[(param name, kind)] with kind in name|str|q|optq|obj|h|link|list, in constructor order."""
    if cls_name in _PARAMS:
        return _PARAMS[cls_name]
    from efootprint.abstract_modeling_classes.explainable_objects import (
        ExplainableQuantity, ExplainableHourlyQuantities)
    from efootprint.abstract_modeling_classes.explainable_object_base_class import ExplainableObject
    from efootprint.abstract_modeling_classes.modeling_object import ModelingObject
    from typing import get_origin
    cls = classes()[cls_name]
    out = []
    for pname, p in inspect.signature(cls.__init__).parameters.items():
        if pname == "self":
            continue
        ann = p.annotation
        if pname == "name":
            kind = "name"
        elif ann is str:
            kind = "str"
        elif get_origin(ann) is list:
            kind = "list"
        elif not inspect.isclass(ann):
            kind = "optq"  # union ExplainableQuantity | EmptyExplainableObject (| None)
        elif issubclass(ann, ExplainableHourlyQuantities):
            kind = "h"
        elif issubclass(ann, ExplainableQuantity):
            kind = "q"
        elif issubclass(ann, ExplainableObject):
            kind = "obj"
        elif issubclass(ann, ModelingObject):
            kind = "link"
        else:  # pragma: no cover
            raise AssertionError(f"unclassified parameter {cls_name}.{pname}: {ann}")
        out.append((pname, kind))
    _PARAMS[cls_name] = out
    return out


def make_value(v, src=None, label=None):
    """spec value -> fresh library value object (never shared between worlds)."""
    import pytz
    from efootprint.abstract_modeling_classes.explainable_object_base_class import Source
    from efootprint.abstract_modeling_classes.explainable_objects import EmptyExplainableObject
    from efootprint.abstract_modeling_classes.source_objects import SourceValue, SourceObject, SourceHourlyValues
    from efootprint.builders.time_builders import create_hourly_usage_df_from_list
    from efootprint.constants.sources import Sources
    from efootprint.constants.units import u
    source = Source(src[0], src[1]) if src else Sources.HYPOTHESIS
    kw = {} if label is None else {"label": label}
    k = v[0]
    if k == "q":
        return SourceValue(u.Quantity(float(v[1]), v[2]), source, **kw)
    if k == "e":
        return EmptyExplainableObject()
    if k == "s":
        return SourceObject(v[1], source, **kw)
    if k == "tz":
        from efsim.gen import timezone_of
        return SourceObject(timezone_of(v[1]), source, **kw)
    if k == "h":
        start = datetime.strptime(v[1], "%Y-%m-%d %H:%M:%S")
        df = create_hourly_usage_df_from_list([float(x) for x in v[2]], start_date=start, pint_unit=u(v[3]).units)
        return SourceHourlyValues(df, source, **kw)
    raise AssertionError(f"not a value: {v}")


class World:
    """A live object graph: name -> ModelingObject, built with keyed ids."""

    def __init__(self, salt):
        self.salt = salt
        self.objs = {}
        self.system = None

    def get(self, name):
        return self.objs[name]

    def name_of(self, obj):
        return obj.name


def new_object(world, spec, name):
    """Construct object `name` of the spec inside `world` with the real constructor."""
    o = spec["objs"][name]
    cls = classes()[o["cls"]]
    kwargs = {}
    for pname, kind in params_of(o["cls"]):
        if kind == "name":
            continue
        v = o["attrs"].get(pname)
        if kind == "str":
            kwargs[pname] = v[1]
        elif kind == "link":
            kwargs[pname] = world.objs[v[1]]
        elif kind == "list":
            kwargs[pname] = [world.objs[n] for n in v[1]]
        elif kind == "optq" and (v is None or v[0] == "e"):
            kwargs[pname] = None
        else:
            kwargs[pname] = make_value(v, o.get("src", {}).get(pname))
    env.IDS.salt = world.salt
    env.IDS.pending_name = name
    obj = cls(name, **kwargs)
    env.IDS.pending_name = None
    world.objs[name] = obj
    if o["cls"] == "System":
        world.system = obj
    return obj


def deps_of(o):
    out = []
    for v in o["attrs"].values():
        if v is None:
            continue
        if v[0] == "ref":
            out.append(v[1])
        elif v[0] == "refs":
            out.extend(v[1])
    return out


def creation_order(spec, perm=None):
    """A topological order of object names (System last).  `perm` (a Keyed) randomises it."""
    names = list(spec["order"])
    if perm is not None:
        names = perm.shuffled(names, "creation")
    done, out = set(), []
    pending = [n for n in names if spec["objs"][n]["cls"] != "System"]
    systems = [n for n in names if spec["objs"][n]["cls"] == "System"]
    while pending:
        progressed = False
        rest = []
        for n in pending:
            if all(d in done for d in deps_of(spec["objs"][n])):
                out.append(n)
                done.add(n)
                progressed = True
            else:
                rest.append(n)
        pending = rest
        if not progressed:
            raise AssertionError(f"cyclic or dangling spec: {pending}")
    if perm is not None and systems and perm.rng("system-position").random() < 0.5:
        # the System is created as soon as everything it links to exists: the objects it does not reach by its links
        # (services that no job uses yet, spare objects) are created afterwards, on a computed model
        objs = spec["objs"]
        reach, stack = set(), list(systems)
        while stack:
            n = stack.pop()
            if n not in reach:
                reach.add(n)
                stack.extend(deps_of(objs[n]))
        return [n for n in out if n in reach] + systems + [n for n in out if n not in reach]
    return out + systems


def build_world(spec, salt, perm=None):
    env.setup()
    w = World(salt)
    for n in creation_order(spec, perm):
        new_object(w, spec, n)
    return w


def clone(spec):
    return copy.deepcopy(spec)


# ---------------------------------------------------------------------------------------------------
# closure (computed from the spec: the spec is the single-copy truth of the links)

def closure(spec, root=None):
    """Names reachable from the system by forward links, plus services installed on reachable servers."""
    objs = spec["objs"]
    if root is None:
        roots = [n for n in spec["order"] if objs[n]["cls"] == "System"]
    else:
        roots = [root]
    seen, stack = [], list(roots)
    seen_set = set()
    while stack:
        n = stack.pop()
        if n in seen_set:
            continue
        seen_set.add(n)
        seen.append(n)
        stack.extend(deps_of(objs[n]))
        if objs[n]["cls"] in SERVER_CLASSES:
            for m in spec["order"]:
                if objs[m]["cls"] in SERVICE_CLASSES and objs[m]["attrs"]["server"][1] == n:
                    stack.append(m)
    return [n for n in spec["order"] if n in seen_set]


def users_of(spec, name):
    """Reverse index recomputed from scratch: [(container name, attr)] referencing `name`."""
    out = []
    for n in spec["order"]:
        for a, v in spec["objs"][n]["attrs"].items():
            if v is None:
                continue
            if (v[0] == "ref" and v[1] == name) or (v[0] == "refs" and name in v[1]):
                out.append((n, a))
    return out
