"""Fault catalogues: invalid values (C14) and values that make a recomputation raise (C15).

A fault is a concrete JSON description; nothing here throws inside library code: faults are *natural*,
i.e. values handed to the public API for which the real code raises where it really can.
"""
import copy

from efsim import spec as S, gen

STRONG, WEAK = True, False   # strong: the statement requires a refusal; weak: *if* refused, nothing may change


def other_dimension_unit(unit):
    from efootprint.constants.units import u
    dim = u.Quantity(1.0, unit).dimensionality
    for cand in ("kg", "s", "W", "dimensionless"):
        if u.Quantity(1.0, cand).dimensionality != dim:
            return cand
    return "m"


def unit_differing_by_a_data_size(unit):
    """'kWh/GB' -> 'kWh', 'GB' -> 'dimensionless', 'kg/TB' -> 'kg', 'GB/gpu' -> '1/gpu' (None when no data size)."""
    import re
    m = re.search(r"(?<![A-Za-z])([kMGT]?B)(?![A-Za-z])", unit)
    if not m:
        return None
    from efootprint.constants.units import u
    b = m.group(1)
    q = u.Quantity(1.0, unit)
    for cand in (q * u.Quantity(1.0, b), q / u.Quantity(1.0, b)):
        txt = f"{cand.units:~}".replace(" ", "")
        if not re.search(r"(?<![A-Za-z])[kMGT]?B(?![A-Za-z])", txt):
            return txt or "dimensionless"
    return None


def can_be_negative(cls_name, attr):
    return attr in S.classes()[cls_name].attributes_that_can_have_negative_values()


def has_allowed_list(cls_name, attr):
    cls = S.classes()[cls_name]
    return attr in cls.list_values() or attr in cls.conditional_list_values()


def value_owned_elsewhere(spec, name, attr, unit):
    """(object, attribute) holding a quantity of the same dimension: preferably the same attribute of another
    object of the same class, else any other one."""
    from efootprint.constants.units import u
    dim = u.Quantity(1.0, unit).dimensionality
    cls_name = spec["objs"][name]["cls"]
    same, other = [], []
    for n in spec["order"]:
        for a, v in spec["objs"][n]["attrs"].items():
            if v is None or v[0] != "q" or (n, a) == (name, attr):
                continue
            if u.Quantity(1.0, v[2]).dimensionality != dim:
                continue
            if a == "fixed_nb_of_instances" or (v[1] < 0) != False:
                continue
            (same if (a == attr and spec["objs"][n]["cls"] == cls_name) else other).append((n, a))
    return (same or other or [None])[0]


def invalid_values(spec, name, attr):
    """[(fault kind, bad value, strong?)] for the constructor parameter `attr` of object `name`."""
    o = spec["objs"][name]
    cls_name = o["cls"]
    kind = dict(S.params_of(cls_name)).get(attr)
    cur = o["attrs"].get(attr)
    out = []
    hourly = ["h", "2025-01-01 00:00:00", [1.0, 2.0, 3.0], "dimensionless"]
    if kind in ("q", "optq"):
        unit = cur[2] if cur and cur[0] == "q" else gen.NUM_DEFAULTS.get(cls_name, {}).get(attr, (1, "dimensionless"))[1]
        mag = cur[1] if cur and cur[0] == "q" else 1.0
        out.append(("wrong_dimension", ["q", 1.5, other_dimension_unit(unit)], STRONG))
        alt = unit_differing_by_a_data_size(unit)
        if alt:
            # kWh for kWh/GB, a bare number for GB ...: pint counts data sizes as dimensionless
            out.append(("wrong_dimension_differing_by_a_data_size", ["q", mag or 1.0, alt], STRONG))
        if not can_be_negative(cls_name, attr):
            out.append(("negative", ["q", -(abs(mag) or 1.0), unit], STRONG))
        out.append(("wrong_type_float", ["raw", 3.5], STRONG))
        out.append(("wrong_type_str", ["raw", "12 GB"], STRONG))
        out.append(("wrong_type_source_object", ["s", "abc"], STRONG))
        out.append(("wrong_type_hourly", hourly, STRONG))
        if kind == "q":
            out.append(("none_for_required_quantity", ["none"], WEAK))
        owner = value_owned_elsewhere(spec, name, attr, unit)
        if owner:
            out.append(("value_owned_by_another_attribute", ["owned", owner[0], owner[1]], WEAK))
        if attr == "fixed_nb_of_instances" and cls_name in S.SERVER_CLASSES and o["attrs"]["server_type"][1] != "on-premise":
            out.append(("not_allowed_for_current_server_type", ["q", 7.0, "dimensionless"], STRONG))
    elif kind == "h":
        out.append(("wrong_type_quantity", ["q", 1.0, "dimensionless"], STRONG))
        out.append(("wrong_type_float", ["raw", 3.5], STRONG))
        out.append(("wrong_type_list", ["raw", [1.0, 2.0]], STRONG))
        out.append(("hourly_wrong_dimension", ["h", cur[1], list(cur[2]), "kg"], WEAK))
        out.append(("hourly_other_length", ["h", cur[1], list(cur[2]) + [1.0, 2.0], cur[3]], WEAK))
    elif kind == "obj":
        out.append(("wrong_type_float", ["raw", 3.5], STRONG))
        out.append(("wrong_type_str", ["raw", "autoscaling"], STRONG))
        if has_allowed_list(cls_name, attr):
            out.append(("not_in_allowed_list", ["s", "bogus-value"], STRONG))
            out.append(("quantity_not_in_allowed_list", ["q", 1.0, "dimensionless"], STRONG))
        if attr == "model_name":
            prov = o["attrs"]["provider"][1]
            other = [p for p in sorted(gen.GENAI_MODELS) if p != prov][0]
            out.append(("not_allowed_for_current_provider", ["s", gen.GENAI_MODELS[other][0]], STRONG))
        if attr == "instance_type":
            prov = o["attrs"]["provider"][1]
            other = [p for p in sorted(gen.CLOUD_INSTANCES) if p != prov][0]
            out.append(("not_allowed_for_current_provider", ["s", gen.CLOUD_INSTANCES[other][0]], STRONG))
        if attr == "provider":
            table = gen.GENAI_MODELS if cls_name == "GenAIModel" else gen.CLOUD_INSTANCES
            other = [p for p in sorted(table) if p != cur[1]][0]
            out.append(("key_change_invalidating_dependent_value", ["s", other], STRONG))
        if attr == "server_type" and o["attrs"].get("fixed_nb_of_instances", ["e"])[0] != "e":
            out.append(("key_change_invalidating_dependent_value", ["s", "autoscaling"], STRONG))
    elif kind == "list":
        ok_classes = {"jobs": S.JOB_CLASSES, "uj_steps": ("UsageJourneyStep",), "devices": ("Device",),
                      "usage_patterns": ("UsagePattern",)}[attr]
        wrong = [n for n in spec["order"] if spec["objs"][n]["cls"] not in ok_classes
                 and spec["objs"][n]["cls"] != "System"]
        if wrong:
            out.append(("list_with_wrong_class", ["refs", list(cur[1]) + [wrong[0]]], STRONG))
            out.append(("list_only_wrong_class", ["refs", [wrong[-1]]], STRONG))
            # ... the wrong object as one gets it when reading it from another link of the model (a wrapper)
            out.append(("list_with_wrong_class_read_from_model", ["refs_read", list(cur[1]) + [wrong[0]]], STRONG))
        out.append(("list_with_non_object", ["rawrefs", list(cur[1]), 3.5], STRONG))
        out.append(("wrong_type_quantity", ["q", 1.0, "dimensionless"], STRONG))
    elif kind == "link":
        from typing import get_origin  # noqa
        import inspect
        ann = inspect.signature(S.classes()[cls_name].__init__).parameters[attr].annotation
        wrong = [n for n in spec["order"] if not issubclass(S.classes()[spec["objs"][n]["cls"]], ann)
                 and spec["objs"][n]["cls"] != "System"]
        if wrong:
            out.append(("link_wrong_class", ["ref", wrong[0]], WEAK))
            out.append(("link_wrong_class_read_from_model", ["ref_read", wrong[0]], WEAK))
        out.append(("wrong_type_quantity", ["q", 1.0, "dimensionless"], STRONG))
        out.append(("wrong_type_float", ["raw", 3.5], STRONG))
    return out


def catalogue(spec, cls_name):
    """All (object, parameter, fault kind, value, strong) for the objects of class `cls_name` in the spec."""
    out = []
    for n in spec["order"]:
        if spec["objs"][n]["cls"] != cls_name:
            continue
        for attr, kind in S.params_of(cls_name):
            if kind in ("name", "str"):
                continue
            for fk, val, strong in invalid_values(spec, n, attr):
                out.append({"obj": n, "attr": attr, "fault": fk, "value": val, "strong": strong})
        break   # one object per class is enough for the enumeration
    return out


# ---------------------------------------------------------------------------------------------------
# C15: edits that validation accepts and that make an update function raise.  Magnitudes are derived
# from the current live state so that the real code really raises (naive ones do not fire).

def _mag_raw(mag, unit, new_unit):
    from efootprint.constants.units import u
    return u.Quantity(float(mag), unit).to(new_unit).magnitude


def _mag(q, unit):
    import copy as _copy
    return float(_copy.copy(q.value).to(unit).magnitude)


def failing_edits(sim, rng):
    """Candidate failing edits for the current state: [op dict with 'expect_site'], far (>= 5 %) from thresholds."""
    import math
    import numpy as np
    from efootprint.abstract_modeling_classes.explainable_objects import EmptyExplainableObject
    spec, w = sim.spec, sim.world
    inside = S.closure(spec)
    out = []

    def setq(name, attr, mag, unit, site):
        out.append({"op": "set", "obj": name, "attr": attr, "value": ["q", float(mag), unit], "fault": "F2",
                    "expect_site": site, "label": f"{attr} of {name} (failing edit)"})

    for n in inside:
        o = spec["objs"][n]
        cls, obj = o["cls"], w.objs[n]
        f = rng.uniform(1.05, 3.0)
        if cls in S.SERVER_CLASSES:
            try:
                ram = _mag(obj.ram, "GB")
                comp_unit = str(obj.compute.value.units)
                comp = _mag(obj.compute, comp_unit)
                util = _mag(obj.server_utilization_rate, "dimensionless")
                occ_ram = 0.0 if isinstance(obj.occupied_ram_per_instance, EmptyExplainableObject) else _mag(
                    obj.occupied_ram_per_instance, "GB")
                occ_comp = 0.0 if isinstance(obj.occupied_compute_per_instance, EmptyExplainableObject) else _mag(
                    obj.occupied_compute_per_instance, comp_unit)
            except Exception:
                continue
            setq(n, "base_ram_consumption", ram * util * f + 1.0, "GB", "update_available_ram_per_instance")
            setq(n, "base_compute_consumption", comp * util * f + 1.0, comp_unit, "update_available_compute_per_instance")
            if occ_ram > 0:
                setq(n, "server_utilization_rate", occ_ram / ram / f, "dimensionless", "update_available_ram_per_instance")
                if cls == "Server":
                    setq(n, "ram", occ_ram / util / f, "GB", "update_available_ram_per_instance")
                if cls == "GPUServer":
                    setq(n, "ram_per_gpu", occ_ram / util / f / comp, "GB/gpu", "update_available_ram_per_instance")
            if occ_comp > 0 and cls != "BoaviztaCloudServer":
                setq(n, "compute", occ_comp / util / f, comp_unit, "update_available_compute_per_instance")
            raw = obj.raw_nb_of_instances
            if not isinstance(raw, EmptyExplainableObject):
                peak = math.ceil(float(np.max(raw.value["value"].values._data)))
                if peak >= 1:
                    bad_fixed = ["q", peak - 0.5, "dimensionless"]
                    if o["attrs"]["server_type"][1] == "on-premise":
                        out.append({"op": "set", "obj": n, "attr": "fixed_nb_of_instances", "value": bad_fixed,
                                    "fault": "F2", "expect_site": "update_nb_of_instances"})
                    else:
                        out.append({"op": "group", "fault": "F2", "expect_site": "update_nb_of_instances", "changes": [
                            {"obj": n, "attr": "server_type", "value": ["s", "on-premise"]},
                            {"obj": n, "attr": "fixed_nb_of_instances", "value": bad_fixed}]})
        if cls == "Job" and "data_stored" in o["attrs"]:
            # an in-place list edit whose recomputation fails: a new job that deletes far more data than was ever
            # stored (a valid object as long as nothing uses it) is listed in a step of the system
            steps = [m for m in inside if spec["objs"][m]["cls"] == "UsageJourneyStep"]
            if steps:
                cur = o["attrs"]["data_stored"]
                attrs = copy.deepcopy(o["attrs"])
                attrs["data_stored"] = ["q", -(abs(cur[1]) + 1.0) * 1e9, cur[2]]
                new_name = f"j_del_{len(spec['order'])}"
                step_ = rng.choice(steps)
                m_ = rng.choice(["append", "insert", "iadd", "extend", "setitem"])
                if m_ == "setitem" and not spec["objs"][step_]["attrs"]["jobs"][1]:
                    m_ = "append"
                args = {"append": [new_name], "insert": [0, new_name], "iadd": [[new_name]], "extend": [[new_name]],
                        "setitem": [0, new_name]}[m_]
                out.append({"op": "compound", "tag": "create_then_list_" + m_, "fault": "F2",
                            "expect_site": "update_full_cumulative_storage_need", "obj": step_, "attr": "jobs",
                            "steps": [{"op": "create", "name": new_name, "cls": "Job", "attrs": attrs},
                                      {"op": "list", "obj": step_, "attr": "jobs", "method": m_, "args": args}]})
        if cls in S.SERVER_CLASSES:
            # a storage already used by another server: accepted by validation, refused by the storage while recomputing
            # (read from the live links: while another failed storage link is installed the description still holds
            # its previous value, and a storage that is free at the moment would make this edit a valid one)
            others = sorted({w.objs[m].storage.name for m in spec["order"]
                             if spec["objs"][m]["cls"] in S.SERVER_CLASSES and m != n and m in w.objs}
                            - {o["attrs"]["storage"][1], obj.storage.name})
            if others:
                out.append({"op": "set", "obj": n, "attr": "storage", "value": ["ref", rng.choice(others)], "fault": "F2",
                            "expect_site": "storage_shared_by_two_servers"})
        if cls in ("VideoStreaming",):
            srv = w.objs[o["attrs"]["server"][1]]
            try:
                cap = _mag(srv.ram, "GB") * _mag(srv.server_utilization_rate, "dimensionless")
            except Exception:
                continue
            setq(n, "base_ram_consumption", cap * f + 1.0, "GB", "update_available_ram_per_instance")
        elif cls == "GenAIModel":
            cur = o["attrs"]["llm_memory_factor"]
            setq(n, "llm_memory_factor", cur[1] * 1e4 * f, cur[2], "update_available_ram_per_instance")
        elif cls == "Storage":
            try:
                delta = obj.storage_delta
                if not isinstance(delta, EmptyExplainableObject):
                    unit = o["attrs"]["base_storage_need"][2]
                    lowest = float(np.min(np.cumsum(np.asarray(delta.value["value"].values._data, dtype=float))))
                    lowest = float(_mag_raw(lowest, str(delta.unit), unit))
                    if lowest < 0:
                        # data is deleted: a base need that does not cover the lowest point of the cumulated deltas
                        setq(n, "base_storage_need", -lowest / f, unit, "update_full_cumulative_storage_need")
            except Exception:
                pass
            raw = obj.raw_nb_of_instances
            if not isinstance(raw, EmptyExplainableObject):
                peak = math.ceil(float(np.max(raw.value["value"].values._data)))
                if peak >= 1:
                    out.append({"op": "set", "obj": n, "attr": "fixed_nb_of_instances",
                                "value": ["q", peak - 0.5, "dimensionless"], "fault": "F2",
                                "expect_site": "update_nb_of_instances"})
        elif cls in S.JOB_CLASSES:
            if "data_stored" in o["attrs"] and cls in ("Job", "WebApplicationJob", "VideoStreamingJob"):
                cur = o["attrs"]["data_stored"]
                setq(n, "data_stored", -(abs(cur[1]) + 1.0) * 1e7 * f, cur[2], "update_full_cumulative_storage_need")
            if cls == "Job":
                setq(n, "request_duration", 0.0, "s", "update_hourly_data_transferred_per_usage_pattern")
        if cls == "WebApplicationJob":
            # the packaged benchmark has no row for (rust-actix-sqlx, mysql): an allowed value whose look-up fails
            svc = o["attrs"]["service"][1]
            if spec["objs"][svc]["attrs"]["technology"][1] == "rust-actix-sqlx" and \
                    o["attrs"]["implementation_details"][1] != "mysql":
                out.append({"op": "set", "obj": n, "attr": "implementation_details", "value": ["s", "mysql"],
                            "fault": "F2", "expect_site": "update_compute_needed"})
        if cls == "WebApplication" and o["attrs"]["technology"][1] != "rust-actix-sqlx":
            jobs_ = [m for m in inside if spec["objs"][m]["cls"] == "WebApplicationJob"
                     and spec["objs"][m]["attrs"]["service"][1] == n
                     and spec["objs"][m]["attrs"]["implementation_details"][1] == "mysql"]
            if jobs_:
                out.append({"op": "set", "obj": n, "attr": "technology", "value": ["s", "rust-actix-sqlx"],
                            "fault": "F2", "expect_site": "update_compute_needed"})
        if cls == "UsagePattern" and not isinstance(obj.nb_usage_journeys_in_parallel, EmptyExplainableObject):
            # (with no journey in parallel an empty device list does not raise: 0 * "no value" aliases objects,
            # a degenerate configuration outside the envelope)
            out.append({"op": "set", "obj": n, "attr": "devices", "value": ["refs", []], "fault": "F2",
                        "expect_site": "update_devices_energy"})
    return out
