"""The simulated world: a live model driven through the public API, its spec, and the operation executor.

An *op* is a concrete JSON dict (no generator is needed to replay it).  `Sim.apply(op)` executes it on the
live world through the public API only and, iff the library accepted it, mirrors it on the spec.
"""
import copy

from efsim import env, spec as S
from efsim.spec import make_value


class OpSkipped(Exception):
    """The op refers to objects that no longer exist (happens only during minimisation)."""


class Sim:
    def __init__(self, spec, salt, build=True):
        env.setup()
        self.salt = salt
        self.spec = S.clone(spec)
        self.world = S.build_world(self.spec, salt) if build else None
        self.n_updates = 0
        self.expect = None
        self.replaced = {}
        self.aliases = {}

    # -- helpers ---------------------------------------------------------------------------------
    def obj(self, name):
        if name not in self.world.objs or name not in self.spec["objs"]:
            raise OpSkipped(name)
        return self.world.objs[name]

    def sattrs(self, name):
        return self.spec["objs"][name]["attrs"]

    def _value(self, v, src=None, label=None):
        if v[0] == "none":
            return None
        return make_value(v, src, label)

    def _link_value(self, v):
        if v[0] == "ref":
            return self.obj(v[1])
        return [self.obj(n) for n in v[1]]

    def as_read_from_the_model(self, name):
        """The object as a user gets it when reading it from a link of the model (`step.jobs[0]`, `up.country`): a
        wrapper; the raw object when nothing links to it."""
        o = self.obj(name)
        for w in getattr(o, "contextual_modeling_obj_containers", []):
            if w.modeling_obj_container is not None:
                return w
        return o

    def _new_for(self, change):
        v = change["value"]
        if v[0] in ("ref", "refs"):
            return self._link_value(v)
        if v[0] == "ref_read":
            return self.as_read_from_the_model(v[1])
        if v[0] == "refs_read":
            # (names..., the last one as read from the model)
            return [self.obj(n) for n in v[1][:-1]] + [self.as_read_from_the_model(v[1][-1])]
        if v[0] == "raw":
            return copy.deepcopy(v[1])
        if v[0] == "owned":
            # the very value object currently held by another attribute (of this or of another object)
            return getattr(self.obj(v[1]), v[2])
        if v[0] == "rawrefs":
            return [self.obj(n) for n in v[1]] + [v[2]]
        return self._value(v, change.get("src"), change.get("label"))

    def _mirror(self, change):
        """Record an accepted change of one attribute in the spec."""
        name, attr, v = change["obj"], change["attr"], change["value"]
        self.aliases.pop((name, attr), None)     # re-assigned: an older reference no longer is the attribute
        o = self.spec["objs"][name]
        if v[0] == "none":
            v = ["e"]
        o["attrs"][attr] = copy.deepcopy(v)
        if v[0] in ("q", "s", "tz", "h"):
            if change.get("src"):
                o.setdefault("src", {})[attr] = list(change["src"])
            else:
                o.setdefault("src", {}).pop(attr, None)

    def create(self, name, cls, attrs, src=None):
        if name in self.spec["objs"]:
            raise OpSkipped(name)
        for d in S.deps_of({"attrs": attrs}):
            if d not in self.world.objs:
                raise OpSkipped(d)
        self.spec["objs"][name] = {"cls": cls, "attrs": copy.deepcopy(attrs), "src": copy.deepcopy(src or {})}
        self.spec["order"].append(name)
        try:
            S.new_object(self.world, self.spec, name)
        except Exception:
            del self.spec["objs"][name]
            self.spec["order"].remove(name)
            raise

    def forget(self, name):
        del self.spec["objs"][name]
        self.spec["order"].remove(name)
        del self.world.objs[name]

    # -- executor --------------------------------------------------------------------------------
    def apply(self, op):
        """Execute `op`.  Returns None if accepted; raises whatever the library raised otherwise.
        The spec is mirrored only for accepted ops (for compound ops: for the accepted prefix)."""
        kind = op["op"]
        fn = getattr(self, "op_" + kind)
        return fn(op)

    def op_set(self, op):
        """Single assignment obj.attr = value (quantity, categorical, hourly, link or list).
        With "reuse": true the very object that this attribute held before its last assignment is assigned again
        (upstream's own change-and-revert idiom) instead of a fresh object of equal value."""
        o = self.obj(op["obj"])
        key = (op["obj"], op["attr"])
        new = None
        if op.get("reuse"):
            # only if that object still holds the value this op wants (an intermediate equal-value assignment is
            # skipped by the library and replaces nothing)
            held = self.replaced.get(key)
            if held is not None and held[1] == op["value"]:
                new = held[0]
        if new is None and op.get("derived_from"):
            # a quantity computed from another input of the model (it keeps that input as parent), labelled
            m_, a_, f_ = op["derived_from"]
            from efootprint.abstract_modeling_classes.source_objects import SourceValue
            from efootprint.constants.units import u
            from efootprint.abstract_modeling_classes.explainable_object_base_class import Source
            new = getattr(self.obj(m_), a_) * SourceValue(float(f_) * u.dimensionless)
            new.source = Source("user data", None)      # an input given by a user: it cites a source like the others
            new.set_label(op["label"])                  # (labelled once the source is known, as the constructors do)
        if new is None:
            new = self._new_for(op)
        old = o.__dict__.get(op["attr"])
        spec_before = copy.deepcopy(self.spec["objs"].get(op["obj"], {}).get("attrs", {}).get(op["attr"]))
        try:
            setattr(o, op["attr"], new)
        finally:
            if (o.__dict__.get(op["attr"]) is not old and op["value"][0] in ("q", "s", "tz", "h", "e", "none")
                    and not op.get("revert")):
                # (a revert that fails must not make its own failed value the "previous" one)
                self.replaced[key] = (old, spec_before)
        self._mirror(op)

    def op_group(self, op):
        from efootprint.abstract_modeling_classes.modeling_update import ModelingUpdate
        changes = []
        for ch in op["changes"]:
            o = self.obj(ch["obj"])
            changes.append([getattr(o, ch["attr"]), self._new_for(ch)])
        ModelingUpdate(changes)
        for ch in op["changes"]:
            self._mirror(ch)

    @staticmethod
    def builtin_list_effect(names, m, args):
        """What the built-in list does (on names): -> (new names, returned name); raises like list does."""
        names = list(names)
        ret = None
        if m == "append":
            names.append(args[0])
        elif m == "insert":
            names.insert(args[0], args[1])
        elif m in ("extend", "iadd"):
            names.extend(args[0])
        elif m == "imul":
            names *= args[0]
        elif m == "pop":
            ret = names.pop(*args)
        elif m == "remove":
            names.remove(args[0])
        elif m == "delitem":
            del names[args[0]]
        elif m == "setitem":
            names[args[0]] = args[1]
        elif m == "clear":
            names.clear()
        elif m in ("extend_self", "iadd_self"):
            names.extend(names)
        elif m == "extend_from":
            names.extend(args[2])
        elif m == "delslice":
            del names[args[0]:args[1]]
        elif m == "setslice":
            names[args[0]:args[1]] = args[2]
        elif m == "reverse":
            names.reverse()
        elif m == "sort":
            names.sort()
        elif m == "alias_append2":
            names.extend(args)
        else:
            raise AssertionError(m)
        return names, ret

    def op_list(self, op):
        """A list-mutating call on obj.attr, mirrored with the built-in list on names."""
        o = self.obj(op["obj"])
        attr, m = op["attr"], op["method"]
        args = op.get("args", [])
        for a in ([args[0]] if m in ("append", "remove") else [args[1]] if m in ("insert", "setitem")
                  else args if m == "alias_append2"
                  else args[0] if m in ("extend", "iadd") else args[2] if m == "setslice" else []):
            self.obj(a)
        cur = list(self.sattrs(op["obj"])[attr][1])
        if m == "extend_from":
            # the argument is the live list of another object (its wrappers), as in `uj.uj_steps += other.uj_steps`
            args = [args[0], args[1], list(self.sattrs(args[0])[args[1]][1])]
        try:
            new_names, exp_ret = self.builtin_list_effect(cur, m, args)
            self.expect = {"exc": None, "ret": exp_ret, "names": new_names}
        except Exception as e:
            new_names = None
            self.expect = {"exc": type(e).__name__, "ret": None, "names": cur}
        lst = getattr(o, attr)
        if op.get("alias") == "use":
            # a reference to the list attribute taken before earlier in-place edits (`l = step.jobs; l.append(a);
            # l.append(b)`): as long as the attribute has not been re-assigned, it is the list of the object
            held = self.aliases.get((op["obj"], attr))
            if held is not None:
                lst = held
        self.aliases[(op["obj"], attr)] = lst
        ret = None
        if m == "append":
            lst.append(self.obj(args[0]))
        elif m == "insert":
            lst.insert(args[0], self.obj(args[1]))
        elif m == "extend":
            lst.extend([self.obj(n) for n in args[0]])
        elif m == "iadd":
            lst += [self.obj(n) for n in args[0]]
            setattr(o, attr, lst)
        elif m == "imul":
            lst *= args[0]
            setattr(o, attr, lst)
        elif m == "pop":
            ret = lst.pop(*args)
        elif m == "remove":
            target = self.obj(args[0])
            if op.get("by") == "wrapper":
                target = next((w for w in lst if w == target), target)
            lst.remove(target)
        elif m == "delitem":
            del lst[args[0]]
        elif m == "setitem":
            lst[args[0]] = self.obj(args[1])
        elif m == "clear":
            lst.clear()
        elif m == "extend_self":
            lst.extend(lst)
        elif m == "iadd_self":
            lst += lst
            setattr(o, attr, lst)
        elif m == "extend_from":
            lst.extend(getattr(self.obj(args[0]), args[1]))
        elif m == "delslice":
            del lst[args[0]:args[1]]
        elif m == "setslice":
            lst[args[0]:args[1]] = [self.obj(n) for n in args[2]]
        elif m == "reverse":
            lst.reverse()
        elif m == "sort":
            lst.sort(key=lambda x: x.name)
        elif m == "alias_append2":
            lst.append(self.obj(args[0]))
            lst.append(self.obj(args[1]))
        else:
            raise AssertionError(m)
        if new_names is not None:
            self.sattrs(op["obj"])[attr] = ["refs", new_names]
        return ret

    def op_create(self, op):
        self.create(op["name"], op["cls"], op["attrs"], op.get("src"))

    def op_refused_create(self, op):
        """Construct, in the live world, an object whose construction the library refuses while recomputing (a service
        that does not fit on its server).  The refusal is swallowed: the monitors then judge the live model, which must
        be what it was.  If the construction is accepted the object is mirrored like any creation."""
        try:
            self.create(op["name"], op["cls"], op["attrs"], op.get("src"))
        except OpSkipped:
            raise
        except ValueError as e:
            env.IDS.pending_name = None
            self.refused_creates = getattr(self, "refused_creates", 0) + 1
            self.last_refusal = f"{type(e).__name__}: {str(e)[:120]}"
            return "refused"

    def op_compound(self, op):
        """Several ops with no oracle in between (creation + linking, removal + deletion)."""
        for sub in op["steps"]:
            self.apply(sub)

    def op_delete(self, op):
        o = self.obj(op["obj"])
        o.self_delete()
        self.forget(op["obj"])
        self.aliases = {k_: v_ for k_, v_ in self.aliases.items() if k_[0] != op["obj"]}

    def op_noop(self, op):
        """Re-assign the current value of an input (equal-value edit)."""
        o = self.obj(op["obj"])
        v = self.sattrs(op["obj"])[op["attr"]]
        self.aliases.pop((op["obj"], op["attr"]), None)
        if v[0] in ("ref", "refs"):
            setattr(o, op["attr"], self._link_value(v))
        else:
            setattr(o, op["attr"], self._value(v, self.spec["objs"][op["obj"]].get("src", {}).get(op["attr"])))

    def op_assign_self(self, op):
        """obj.attr = obj.attr (the very same list object)."""
        o = self.obj(op["obj"])
        setattr(o, op["attr"], getattr(o, op["attr"]))

    def op_second_system(self, op):
        """Try to create a second System over objects of the first one (must be refused)."""
        from efootprint.core.system import System
        for sub in op.get("before", []):
            self.apply(sub)
        if "new_up" in op:
            self.create(op["new_up"]["name"], "UsagePattern", op["new_up"]["attrs"])
            ups = [self.obj(op["new_up"]["name"])]
        else:
            ups = [self.obj(n) for n in op["ups"]]
        env.IDS.salt = self.world.salt
        env.IDS.pending_name = op["name"]
        try:
            System(op["name"], usage_patterns=ups)
        finally:
            env.IDS.pending_name = None
            if "new_up" in op:
                self.obj(op["new_up"]["name"]).self_delete()
                self.forget(op["new_up"]["name"])

    # -- fault ops (never mirrored: they are expected to be refused) ------------------------------
    def op_bad_set(self, op):
        o = self.obj(op["obj"])
        setattr(o, op["attr"], self._new_for(op))

    def op_bad_group(self, op):
        from efootprint.abstract_modeling_classes.modeling_update import ModelingUpdate
        changes = []
        for ch in op["changes"]:
            o = self.obj(ch["obj"])
            changes.append([getattr(o, ch["attr"]), self._new_for(ch)])
        ModelingUpdate(changes)

    def op_bad_list(self, op):
        o = self.obj(op["obj"])
        lst = getattr(o, op["attr"])
        bad = self.obj(op["bad"]) if isinstance(op["bad"], str) else op["bad"]
        if op.get("as_read") and isinstance(op["bad"], str):
            bad = self.as_read_from_the_model(op["bad"])
        m = op["method"]
        if m == "append":
            lst.append(bad)
        elif m == "insert":
            lst.insert(0, bad)
        elif m == "extend":
            lst.extend([bad])
        elif m == "iadd":
            lst += [bad]
            setattr(o, op["attr"], lst)
        elif m == "setitem":
            lst[0] = bad
        else:
            raise AssertionError(m)

    def op_bad_construct(self, op):
        """Construct, in a scratch copy of the world, an object like `like` with one invalid parameter."""
        scratch = S.build_world(self.spec, self.salt + ":scratch")
        sp = S.clone(self.spec)
        name = "bad_" + op["like"]
        o = copy.deepcopy(sp["objs"][op["like"]])
        sp["objs"][name] = o
        sp["order"].append(name)
        cls = S.classes()[o["cls"]]
        kwargs = {}
        for pname, kind in S.params_of(o["cls"]):
            if kind == "name":
                continue
            v = o["attrs"].get(pname)
            if pname == op["attr"]:
                tmp = Sim.__new__(Sim)
                tmp.world, tmp.spec = scratch, sp
                kwargs[pname] = Sim._new_for(tmp, {"value": op["value"]})
            elif kind == "str":
                kwargs[pname] = v[1]
            elif kind == "link":
                kwargs[pname] = scratch.objs[v[1]]
            elif kind == "list":
                kwargs[pname] = [scratch.objs[n] for n in v[1]]
            elif kind == "optq" and (v is None or v[0] == "e"):
                kwargs[pname] = None
            else:
                kwargs[pname] = make_value(v, o.get("src", {}).get(pname))
        env.IDS.salt = scratch.salt
        env.IDS.pending_name = name
        try:
            cls(name, **kwargs)
        except Exception as e:
            # which objects of the (scratch) model still report the half-built object among their users?
            ghosts = []
            for n_, o_ in scratch.objs.items():
                try:
                    if any(getattr(c, "name", None) == name for c in o_.modeling_obj_containers):
                        ghosts.append(n_)
                except Exception:
                    pass
            e.efsim_ghost_links = sorted(ghosts)
            raise
        finally:
            env.IDS.pending_name = None

    def op_simulate(self, op):
        """Create a dated what-if simulation (never mirrored: the baseline must not change). Returns it."""
        from datetime import datetime
        from efootprint.abstract_modeling_classes.modeling_update import ModelingUpdate
        changes = []
        for ch in op["changes"]:
            o = self.obj(ch["obj"])
            changes.append([getattr(o, ch["attr"]), self._new_for(ch)])
        return ModelingUpdate(changes, simulation_date=datetime.fromisoformat(op["date"]))

    def op_restart(self, op):
        """Save, quit, reopen: only the JSON text survives.  Returns (saved dict, reloaded World)."""
        import json
        from efootprint.api_utils.system_to_json import system_to_json
        from efootprint.api_utils.json_to_system import json_to_system
        saved = system_to_json(self.world.system, save_calculated_attributes=bool(op.get("with_calc")))
        text = json.dumps(saved)
        data = json.loads(text)
        if op.get("v9"):
            data["efootprint_version"] = "9.1.4"
            if "Device" in data:
                data["Hardware"] = data.pop("Device")
        class_obj_dict, flat = json_to_system(data)
        new = S.World(self.world.salt)
        for obj in flat.values():
            if obj.name in new.objs:
                raise AssertionError(f"two reloaded objects named {obj.name}")
            new.objs[obj.name] = obj
        systems = list(class_obj_dict.get("System", {}).values())
        new.system = systems[0] if systems else None
        return saved, new

    # -- schedule / read-side requests (C18): never change the spec --------------------------------
    def op_recompute(self, op):
        """Explicit recomputation requests in the recorded order ("sys!" = system.after_init())."""
        for t in op["targets"]:
            if t == "sys!":
                self.world.system.after_init()
            elif "." in t:
                # one update rule alone: "<object>.<calculated attribute>"
                name, attr = t.split(".", 1)
                getattr(self.obj(name), "update_" + attr)()
            else:
                self.obj(t).compute_calculated_attributes()

    def op_read(self, op):
        """Read-side traffic: explaining, printing, exporting, plotting."""
        import os
        import tempfile
        kind = op["kind"]
        system = self.world.system
        targets = [self.obj(t) for t in op.get("targets", [])]
        tmp = os.path.join(tempfile.gettempdir(), f"efsim-{os.getpid()}")
        if not os.path.isdir(tmp):
            import atexit
            import shutil
            os.makedirs(tmp, exist_ok=True)
            atexit.register(shutil.rmtree, tmp, True)
        if kind == "explain":
            for o in targets:
                for attr in o.calculated_attributes:
                    v = getattr(o, attr)
                    for e in (v.values() if isinstance(v, dict) else [v]):
                        e.explain()
                        e.explain(pretty_print=False)
        elif kind == "str":
            for o in targets:
                str(o)
                repr(o)
        elif kind == "to_json":
            from efootprint.api_utils.system_to_json import system_to_json
            system_to_json(system, save_calculated_attributes=bool(op.get("with_calc", True)))
            for o in targets:
                o.to_json(True)
        elif kind == "sums":
            system.total_energy_footprint_sum_over_period
            system.total_fabrication_footprint_sum_over_period
            system.energy_footprint_sum_over_period
            system.fabrication_footprint_sum_over_period
            system.total_energy_footprints
            system.total_fabrication_footprints
            system.energy_footprints
            system.fabrication_footprints
        elif kind == "plot_system":
            system.plot_footprints_by_category_and_object(return_only_html=True)
        elif kind == "plot_diffs":
            import matplotlib.pyplot as plt
            if system.previous_change is not None:
                system.plot_emission_diffs(filepath=os.path.join(tmp, "diffs.png"))
                plt.close("all")
        elif kind == "plot_values":
            import matplotlib.pyplot as plt
            from efootprint.abstract_modeling_classes.explainable_objects import ExplainableHourlyQuantities
            for o in targets:
                for attr in o.calculated_attributes:
                    v = getattr(o, attr)
                    if isinstance(v, ExplainableHourlyQuantities):
                        # (filepath=None: with a file path the library raises NameError 'plt' before doing anything)
                        v.plot(filepath=None, plt_show=False, cumsum=bool(op.get("cumsum")))
                        plt.close("all")
                        break
        elif kind == "calculus_graph":
            for o in targets:
                for attr in o.calculated_attributes[-1:]:
                    v = getattr(o, attr)
                    if not isinstance(v, dict) and v.label:
                        v.calculus_graph_to_file(filename=os.path.join(tmp, "calc.html"))
        elif kind == "object_graph":
            system.object_relationship_graph_to_file(filename=os.path.join(tmp, "obj.html"))
            for o in targets[:1]:
                o.object_relationship_graph_to_file(filename=os.path.join(tmp, "obj2.html"), classes_to_ignore=[])
        else:
            raise AssertionError(kind)

    def op_assign_slice(self, op):
        """Upstream's idiom: obj.attr = obj.attr[a:b] (+ [other objects]) - the new list holds the *wrappers* of the
        current list, not the raw objects."""
        o = self.obj(op["obj"])
        attr = op["attr"]
        cur = getattr(o, attr)
        new = cur[op.get("start"):op.get("stop")] + [self.obj(n) for n in op.get("plus", [])]
        names = list(self.sattrs(op["obj"])[attr][1])[op.get("start"):op.get("stop")] + list(op.get("plus", []))
        self.aliases.pop((op["obj"], attr), None)
        setattr(o, attr, new)
        self.sattrs(op["obj"])[attr] = ["refs", names]

    def op_clone_system(self, op):
        """Build, in the same world, a second system that is a disjoint renamed copy of the current one."""
        sfx = op["suffix"]
        names = S.closure(self.spec)
        ren = {n: n + sfx for n in names}
        keep_system = self.world.system
        try:
            for n in S.creation_order({"objs": {k: self.spec["objs"][k] for k in names},
                                       "order": [k for k in self.spec["order"] if k in names]}):
                o = self.spec["objs"][n]
                attrs = {}
                for a, v in o["attrs"].items():
                    if v is not None and v[0] == "ref":
                        attrs[a] = ["ref", ren[v[1]]]
                    elif v is not None and v[0] == "refs":
                        attrs[a] = ["refs", [ren[x] for x in v[1]]]
                    else:
                        attrs[a] = copy.deepcopy(v)
                self.create(ren[n], o["cls"], attrs, o.get("src"))
        finally:
            self.world.system = keep_system

    def op_cross_system(self, op):
        """A link edit that would put an object of one system into the other one."""
        target = self.obj(op["target"])
        arg = self.obj(op["arg"])
        if op["method"] == "append":
            getattr(target, op["attr"]).append(arg)
        elif op["method"] == "iadd":
            lst = getattr(target, op["attr"])
            lst += [arg]
            setattr(target, op["attr"], lst)
        elif op["method"] == "assign_list":
            setattr(target, op["attr"], list(getattr(target, op["attr"])) + [arg])
        elif op["method"] == "assign_list_front":
            setattr(target, op["attr"], [arg] + list(getattr(target, op["attr"])))
        elif op["method"] == "insert0":
            getattr(target, op["attr"]).insert(0, arg)
        elif op["method"] == "setitem0":
            lst = getattr(target, op["attr"])
            if len(lst) == 0:
                lst.append(arg)
            else:
                lst[0] = arg
        else:
            setattr(target, op["attr"], arg)

    def op_copy_object(self, op):
        """A new object (in no system yet) with the same inputs and links as an existing one."""
        o = self.spec["objs"][op["of"]]
        self.create(op["name"], o["cls"], copy.deepcopy(o["attrs"]), copy.deepcopy(o.get("src")))
