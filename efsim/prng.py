"""Keyed pseudo-random decisions.

Every random decision of the simulator is a pure function of (seed material, purpose, stable key):
never "the next value of a stream".  Removing an operation during minimisation therefore does not
shift any other decision (in particular not the object ids, hence not the set orders of the library).
Nothing here reads a clock or the process hash seed.
"""
import hashlib
import random


def h64(*parts) -> int:
    m = hashlib.blake2b(repr(parts).encode("utf-8"), digest_size=8)
    return int.from_bytes(m.digest(), "big")


def hexid(*parts, n=6) -> str:
    m = hashlib.blake2b(repr(parts).encode("utf-8"), digest_size=8)
    return m.hexdigest()[:n]


class Keyed:
    """A keyed source: Keyed(seed, 'C01', 12).sub('op', 3).rng() is a private random.Random."""

    def __init__(self, *key):
        self.key = tuple(key)

    def sub(self, *k):
        return Keyed(*self.key, *k)

    def int(self, *k):
        return h64(*self.key, *k)

    def u(self, *k):
        return h64(*self.key, *k) / 2.0 ** 64

    def randint(self, lo, hi, *k):
        return lo + h64(*self.key, *k) % (hi - lo + 1)

    def choice(self, seq, *k):
        return seq[h64(*self.key, *k) % len(seq)]

    def chance(self, p, *k):
        return self.u(*k) < p

    def rng(self, *k) -> random.Random:
        return random.Random(h64(*self.key, *k))

    def shuffled(self, seq, *k):
        seq = list(seq)
        return [x for _, x in sorted(((h64(*self.key, *k, i), x) for i, x in enumerate(seq)), key=lambda t: t[0])]
