"""efsim driver: check / replay.  The parent process never imports e-footprint: it only
spawns worker interpreters with a pinned PYTHONHASHSEED and aggregates what they report.

exit 0 = held on everything explored (KNOWN-FINDING lines allowed); exit 1 = VIOLATION line(s) printed;
exit 2 = harness error / timeout (neither a pass nor a violation).
"""
import argparse
import json
import os
import subprocess
import sys
import time
from collections import Counter

ROOT = os.path.dirname(os.path.dirname(os.path.abspath(__file__)))
sys.path.insert(0, ROOT)
from efsim.prng import h64  # noqa: E402  (pure python, no library import)

PY = sys.executable
REPLAYS = os.path.join(ROOT, "replays")
EVIDENCE = os.path.join(ROOT, "evidence")
SCRATCH = os.path.join(ROOT, ".scratch")
FINDINGS = os.path.join(ROOT, "known_findings.json")

# (runs, ops per run, workers) per tier
TIERS = {
    "C01": {"quick": (96, 10, 16), "thorough": (1500, 20, 16)},
    "C16": {"quick": (128, 14, 16), "thorough": (2500, 24, 16)},
    # C14: 98 (class, parameter) pairs; index // 98 = variant: 0,1 enumerate the catalogue on a full model, >= 2
    # place catalogue faults at random points of seeded histories (nops applies to history mode only)
    "C14": {"quick": (98 * 2 + 60, 400, 16), "thorough": (98 * 2 + 1000, 400, 16)},
    "C15": {"quick": (128, 14, 16), "thorough": (2000, 24, 16)},
    "C05": {"quick": (128, 10, 16), "thorough": (2000, 20, 16)},
    "C13": {"quick": (128, 10, 16), "thorough": (2000, 20, 16)},
    "C18": {"quick": (128, 10, 16), "thorough": (2000, 20, 16)},
    "C19": {"quick": (64, 8, 16), "thorough": (600, 16, 16)},
    "C07": {"quick": (64, 8, 16), "thorough": (800, 16, 16)},
    "C08": {"quick": (96, 10, 16), "thorough": (1500, 20, 16)},
}
# C19 additionally re-executes its first CROSS_PROCESS runs in a second set of interpreters started with other
# PYTHONHASHSEED values and compares the shipped final values (the "different processes" clause)
CROSS_PROCESS = {"quick": 64, "thorough": 320}
LEVEL = {"C01": "exploration", "C16": "exploration", "C14": "fault_enumeration", "C15": "fault_enumeration", "C05": "exploration", "C13": "exploration", "C18": "exploration", "C19": "exploration", "C07": "exploration", "C08": "exploration"}
# per-tier monitor options (deeper bounds in the thorough tier)
TIER_OPTS = {
    "C14": {"thorough": {"history_ops": 30}},
    "C08": {"thorough": {"sweep_inputs_start": 12, "sweep_inputs_end": 40}},
}
WORKER_TIMEOUT = {"quick": 2400, "thorough": 6 * 3600}


def child_env(hashseed):
    e = dict(os.environ)
    e["PYTHONHASHSEED"] = str(hashseed)
    e["PYTHONDONTWRITEBYTECODE"] = "1"
    e["MPLBACKEND"] = "Agg"
    e.pop("WRITE_EFOOTPRINT_LOGS", None)
    e["PYTHONPATH"] = ROOT
    return e


def load_findings(prop):
    if not os.path.exists(FINDINGS):
        return []
    data = json.load(open(FINDINGS))
    return [f for f in data.get("findings", []) if f.get("property") == prop]


def finding_matches(f, v, replay):
    """Narrow match of a violation against an *open* known finding."""
    if f.get("status") != "open":
        return False
    m = f.get("match", {})
    if "oracles" not in m and f["oracle"] != v["oracle"]:
        return False
    if "where_subset_of" in m and not set(v["where"]) <= set(m["where_subset_of"]):
        return False
    if "where_any" in m and not (set(v["where"]) & set(m["where_any"])):
        return False
    if "where_subset_of_labels" in m and not set(v["where"]) <= set(m["where_subset_of_labels"]):
        return False
    if "where_prefixes" in m and not all(any(w.startswith(p) for p in m["where_prefixes"]) for w in v["where"]):
        return False
    if "where_all_contain" in m and not all(m["where_all_contain"] in w for w in v["where"]):
        return False
    if "oracles" in m and v["oracle"] not in m["oracles"]:
        return False
    if "op_kinds" in m and v.get("op_kind") not in m["op_kinds"]:
        return False
    if "detail_contains" in m and m["detail_contains"] not in (v.get("detail") or ""):
        return False
    if "last_op" in m:
        ops = (replay or {}).get("ops") or []
        step = v.get("step")
        op = ops[step] if step is not None and 0 <= step < len(ops) else (ops[-1] if ops else {})
        for key, val in m["last_op"].items():
            if json.dumps(op.get(key), sort_keys=True) != json.dumps(val, sort_keys=True):
                return False
    return True


def run_replay_file(prop, path, hashseed=None, digests=False, timeout=900):
    rp = json.load(open(path))
    hs = hashseed if hashseed is not None else rp.get("hashseed", 0)
    os.makedirs(SCRATCH, exist_ok=True)
    out = os.path.join(SCRATCH, f"replay-{os.getpid()}-{h64(path, time.time()) % 10**8}.jsonl")
    cmd = [PY, "-m", "efsim.worker", "--property", prop, "--replay", path, "--out", out]
    if digests:
        cmd.append("--digests")
    try:
        p = subprocess.run(cmd, env=child_env(hs), cwd=ROOT, capture_output=True, text=True, timeout=timeout)
    except subprocess.TimeoutExpired:
        return {"ended": "timeout", "violation": None, "harness_error": "replay timed out"}
    try:
        line = open(out).readline()
        res = json.loads(line)
    except Exception:
        res = {"ended": "crash", "violation": None, "harness_error": (p.stderr or "")[-2000:]}
    finally:
        if os.path.exists(out):
            os.remove(out)
    return res


def same_class(v, expected):
    if v is None or expected is None:
        return False
    if v["oracle"] != expected["oracle"]:
        return False
    if expected.get("where"):
        return bool(set(v["where"]) & set(expected["where"]))
    return True


def minimise_and_confirm(prop, cand, tag, budget):
    """-> (replay path | None, klass | None).  Minimise under the recorded hash seed, then replay the file in a
    fresh interpreter and require the same violation class."""
    os.makedirs(REPLAYS, exist_ok=True)
    os.makedirs(SCRATCH, exist_ok=True)
    cpath = os.path.join(SCRATCH, f"cand-{tag}.json")
    json.dump(cand, open(cpath, "w"))
    rpath = os.path.join(REPLAYS, f"{tag}.json")
    try:
        p = subprocess.run([PY, "-m", "efsim.minimise", "--property", prop, "--cand", cpath, "--out", rpath,
                            "--budget", str(budget)],
                           env=child_env(cand.get("hashseed", 0)), cwd=ROOT, capture_output=True, text=True,
                           timeout=budget * 3 + 300)
        info = json.loads(p.stdout.strip().splitlines()[-1]) if p.stdout.strip() else {"reproduced": False}
    except Exception as e:
        info = {"reproduced": False, "error": repr(e)}
    finally:
        if os.path.exists(cpath):
            os.remove(cpath)
    if not info.get("reproduced"):
        return None, info
    res = run_replay_file(prop, rpath)
    exp = json.load(open(rpath))["expected"]
    if same_class(res.get("violation"), exp):
        return rpath, res["violation"]
    return None, {"reproduced": False, "fresh_replay": res.get("ended"), "err": res.get("harness_error")}


def confirm_with_warmup(prop, r, tag, seed, runs, nops, workers, opts):
    """Replay file = the earlier runs of the same worker (re-executed first, results discarded) + the recorded run."""
    workers = max(1, min(workers, runs))
    per = (runs + workers - 1) // workers
    lo = (r["index"] // per) * per
    if lo >= r["index"]:
        return None, None
    os.makedirs(REPLAYS, exist_ok=True)
    rpath = os.path.join(REPLAYS, f"{tag}-after-earlier-runs.json")
    rp = dict(r["replay"], property=prop, detail=r["violation"].get("detail"),
              warmup={"seed": seed, "indices": [lo, r["index"]], "nops": nops, "opts": opts or {}},
              note="this violation only shows after other models have been built in the same interpreter: the replay "
                   "first re-executes the runs that the worker had executed before this one")
    json.dump(rp, open(rpath, "w"), indent=1)
    res = run_replay_file(prop, rpath, timeout=2400)
    if same_class(res.get("violation"), rp.get("expected")):
        return rpath, res["violation"]
    os.remove(rpath)
    return None, None


def spawn_workers(prop, seed, runs, nops, workers, tier, opts=None, digests=False, base=0, group="hashseed",
                  fixed_hashseed=None):
    os.makedirs(SCRATCH, exist_ok=True)
    workers = max(1, min(workers, runs))
    per = (runs + workers - 1) // workers
    procs = []
    for w in range(workers):
        lo, hi = base + w * per, base + min(runs, (w + 1) * per)
        if lo >= hi:
            continue
        hs = h64(seed, prop, group, w) % (2 ** 32) if fixed_hashseed is None else fixed_hashseed
        out = os.path.join(SCRATCH, f"w-{prop}-{group}-{os.getpid()}-{w}.jsonl")
        cmd = [PY, "-m", "efsim.worker", "--property", prop, "--seed", str(seed), "--indices", f"{lo}:{hi}",
               "--nops", str(nops), "--out", out, "--opts", json.dumps(opts or {}),
               "--hard-timeout", str(WORKER_TIMEOUT[tier])]
        if digests:
            cmd.append("--digests")
        errp = out + ".err"
        p = subprocess.Popen(cmd, env=child_env(hs), cwd=ROOT, stdout=subprocess.DEVNULL, stderr=open(errp, "w"))
        procs.append((p, out, errp, hs, lo, hi))
    return procs


def collect(procs, tier):
    results, problems = [], []
    deadline = time.time() + WORKER_TIMEOUT[tier] + 120
    for p, out, errp, hs, lo, hi in procs:
        try:
            p.wait(timeout=max(1, deadline - time.time()))
        except subprocess.TimeoutExpired:
            p.kill()
            problems.append(f"worker {lo}:{hi} timed out")
        got = []
        if os.path.exists(out):
            for line in open(out):
                line = line.strip()
                if line:
                    try:
                        got.append(json.loads(line))
                    except Exception:
                        problems.append(f"worker {lo}:{hi} wrote a truncated line")
            os.remove(out)
        if len(got) != hi - lo:
            err = open(errp).read()[-1500:] if os.path.exists(errp) else ""
            problems.append(f"worker {lo}:{hi} (hashseed {hs}) returned {len(got)} of {hi - lo} runs, rc={p.returncode}: {err}")
        if os.path.exists(errp):
            os.remove(errp)
        results.extend(got)
    return results, problems


def cross_process_compare(results_a, results_b):
    """C19, 'in different processes': same runs executed under other hash seeds must ship the same final values."""
    from efsim import compare as C
    from efsim.monitors_light import from_jsonable
    by_index = {r["index"]: r for r in results_a}
    out = {"compared_runs": 0, "compared_values": 0, "excused_boundary": 0, "mismatches": []}
    for rb in results_b:
        ra = by_index.get(rb["index"])
        if ra is None or ra["ended"] != "complete" or rb["ended"] != "complete":
            if ra is not None and ra["ended"] != rb["ended"] and "violation" not in (ra["ended"], rb["ended"]):
                out["mismatches"].append({"index": rb["index"], "what": f"run ended '{ra['ended']}' under hash seed "
                                          f"{ra['hashseed']} and '{rb['ended']}' under {rb['hashseed']}"})
            continue
        fa, fb = ra["extra"].get("final_values"), rb["extra"].get("final_values")
        if fa is None or fb is None:
            continue
        out["compared_runs"] += 1
        if ra["extra"].get("near_integer") or rb["extra"].get("near_integer"):
            out["excused_boundary"] += 1
            continue
        bad = []
        for key in sorted(set(fa) | set(fb)):
            if key not in fa or key not in fb:
                bad.append(f"{key}: missing on one side")
                continue
            atol = 1.01e-4 if key.endswith("sys.total_footprint") or key == "sys.total_footprint" else 0.0
            ok, why = C.phys_equal(from_jsonable(fa[key]), from_jsonable(fb[key]), atol=atol)
            out["compared_values"] += 1
            if not ok:
                bad.append(f"{key}: {why}")
        if bad:
            out["mismatches"].append({"index": rb["index"], "hashseeds": [ra["hashseed"], rb["hashseed"]],
                                      "what": "; ".join(bad[:6])})
    return out


def check(prop, tier, seed, runs=None, nops=None, workers=None, opts=None):
    t0 = time.time()
    R, N, W = TIERS[prop][tier]
    R, N, W = runs or R, nops or N, workers or W
    findings = load_findings(prop)
    opts = dict(TIER_OPTS.get(prop, {}).get(tier, {}), **(opts or {}))
    # an open finding may name things the monitor has to step over in order to go on exploring (it is still
    # reported as KNOWN-FINDING, from its witness, which is replayed without this tolerance)
    tol = sorted({lab for f in findings if f.get("status") == "open" for lab in f.get("match", {}).get("tolerate_leaf_labels", [])})
    if tol:
        opts["tolerated_leaf_labels"] = tol
    tol_or = sorted({o for f in findings if f.get("status") == "open" for o in f.get("match", {}).get("tolerate_oracles", [])})
    if tol_or:
        opts["tolerated_oracles"] = tol_or
    procs = spawn_workers(prop, seed, R, N, W, tier, opts)
    results, problems = collect(procs, tier)
    cross = None
    if prop == "C19":
        n_cross = min(R, CROSS_PROCESS[tier])
        procs_b = spawn_workers(prop, seed, n_cross, N, W, tier, opts, group="hashseed-B")
        results_b, problems_b = collect(procs_b, tier)
        problems += problems_b
        cross = cross_process_compare(results, results_b)
    findings = load_findings(prop)
    stats = Counter()
    ended = Counter()
    distinct = set()
    samples = []
    violations = []          # (result) with replay
    fingerprints = set()
    for r in results:
        fingerprints.update((r.get("extra") or {}).get("recompute_fingerprints", []))
        ended[r["ended"]] += 1
        for k, v in r["stats"].items():
            stats[k] += v
        accepted = [k for k, s in zip(r["op_kinds"], r["statuses"]) if s == "ok"]
        if accepted:
            distinct.add((r["topo_sig"], tuple(r["op_kinds"]), tuple(r["statuses"])))
        if "sample" in r and len(samples) < 4:
            samples.append({"run_index": r["index"], "hashseed": r["hashseed"], **r["sample"]})
        if r.get("harness_error"):
            problems.append(f"run {r['index']}: {r['harness_error'][-1200:]}")
        if r.get("violation"):
            violations.append(r)
        for extra in r.get("more", []):
            violations.append({"index": r["index"], "violation": extra["violation"], "replay": extra["replay"]})
    known_hits = Counter()
    unknown = {}
    for r in violations:
        v = r["violation"]
        hit = next((f for f in findings if finding_matches(f, v, r.get("replay"))), None)
        if hit:
            known_hits[hit["id"]] += 1
            continue
        key = (v["oracle"], tuple(v["where"]), v.get("op_kind"))
        unknown.setdefault(key, []).append(r)
    reported = []
    if unknown and os.environ.get("EFSIM_LIST_CLASSES"):
        for key, rs in sorted(unknown.items(), key=lambda kv: -len(kv[1])):
            print(f"CLASS x{len(rs)} oracle={key[0]} op={key[2]} where={list(key[1])[:6]} :: "
                  f"{(rs[0]['violation'].get('detail') or '')[:300]}", file=sys.stderr)
    budget = 150 if tier == "quick" else 600
    max_classes = int(os.environ.get("EFSIM_MAX_CLASSES", "4" if tier == "quick" else "12"))
    for n, (key, rs) in enumerate(sorted(unknown.items(), key=lambda kv: (len(kv[1][0]["replay"]["ops"]), kv[0]))):
        if n >= max_classes:
            break
        r = min(rs, key=lambda x: len(x["replay"]["ops"]))
        tag = f"{prop}-s{seed}-r{r['index']}" + (f"-step{r['violation'].get('step')}" if r.get("replay") and r["violation"].get("step") is not None and "more" not in r and any(x is not r and x["index"] == r["index"] for x in violations) else "")
        path, info = minimise_and_confirm(prop, r["replay"], tag, budget)
        if path is None:
            # the violation may depend on what the same interpreter executed before (state kept across models by
            # the library, e.g. a class-level cache): replay the run after the runs its worker had executed before it
            path, info2 = confirm_with_warmup(prop, r, tag, seed, R, N, W, opts)
            if path is None:
                problems.append(f"violation in run {r['index']} ({key[0]}) did not reproduce when replayed: {info}")
                continue
            info = info2
        # a minimised history may turn out to be a known finding after all
        rp = json.load(open(path))
        hit = next((f for f in findings if finding_matches(f, info, rp)), None)
        if hit:
            known_hits[hit["id"]] += 1
            os.remove(path)
            continue
        reported.append((path, info))
    # known findings: confirm each open entry's witness still reproduces, print one line per entry
    known_lines = []
    for f in findings:
        if f.get("status") != "open":
            continue
        wit = os.path.join(ROOT, f["witness"])
        res = run_replay_file(prop, wit)
        if same_class(res.get("violation"), json.load(open(wit))["expected"]):
            known_lines.append(f"KNOWN-FINDING: property={prop} {f['id']} {f['what']} "
                               f"(witness reproduces; matched {known_hits.get(f['id'], 0)} run(s) in this batch)")
        else:
            known_lines.append(f"NOTE: property={prop} known finding {f['id']} no longer reproduces from its witness "
                               f"({res.get('ended')})")
    if cross is not None:
        for mm in cross["mismatches"][:3]:
            os.makedirs(REPLAYS, exist_ok=True)
            path = os.path.join(REPLAYS, f"{prop}-s{seed}-r{mm['index']}-crossprocess.json")
            json.dump({"property": prop, "kind": "cross_process", "seed": seed, "index": mm["index"], "nops": N,
                       "hashseeds": mm.get("hashseeds"), "detail": mm["what"]}, open(path, "w"), indent=1)
            reported.append((path, {"oracle": "processes_differ", "where": ["final values"], "op_kind": None,
                                    "detail": mm["what"]}))
    # fixed findings suppress nothing: their witnesses are replayed as regression histories
    from concurrent.futures import ThreadPoolExecutor
    fixed = [f for f in findings if f.get("status") == "fixed" and f.get("witness")]
    regressions_replayed = len(fixed)
    with ThreadPoolExecutor(max_workers=8) as ex:
        outs = list(ex.map(lambda f: run_replay_file(prop, os.path.join(ROOT, f["witness"])), fixed))
    for f, res in zip(fixed, outs):
        if res.get("violation") is not None:
            reported.append((os.path.join(ROOT, f["witness"]), res["violation"]))
        elif res.get("harness_error"):
            problems.append(f"regression replay {f['id']}: {res['harness_error'][-800:]}")
    wall = time.time() - t0
    n_unknown_classes = len(unknown)
    evidence = {
        "property_id": prop, "tier": tier, "seed": seed, "level": LEVEL[prop],
        "coverage": {
            "evaluations": len(results),
            "distinct_nontrivial": len(distinct),
            "rule": "one evaluation = one simulated run (generated topology + generated history executed on the real "
                    "library with the property's oracles after every step); a run is non-trivial if at least one "
                    "generated operation was accepted by the library; two runs are distinct if they differ in "
                    "(topology signature = class counts and sharing tags, sequence of operation kinds, sequence of "
                    "outcomes)",
            "samples": samples or [{"note": "no sample recorded"}],
            "steps_executed": stats.get("ops", 0),
            "distinct_recomputation_orders": len(fingerprints),
            "distinct_recomputation_orders_rule": "number of distinct sequences of Class.attribute that the library's real "
                                                  "ModelingUpdate scheduled for recomputation during this batch (observed by "
                                                  "a wrapper around ModelingUpdate.recompute_attributes; the 'interleavings "
                                                  "reached' measure)",
            "runs_per_hour": round(len(results) / wall * 3600) if wall > 0 else 0,
            "run_seeds": f"VERIF_SEED={seed}, run indices 0..{R - 1}, PYTHONHASHSEED per worker = H(seed, property, worker)",
            "workers": W, "ops_per_run": N,
            "run_endings": dict(ended),
            "operation_kinds_executed": {k[3:]: v for k, v in sorted(stats.items()) if k.startswith("op:")},
            "outcomes": {k[7:]: v for k, v in sorted(stats.items()) if k.startswith("status:")},
            "fault_kinds_fired": {k[6:]: v for k, v in sorted(stats.items()) if k.startswith("fault:")},
            "other_counters": {k: v for k, v in sorted(stats.items())
                               if not k.startswith(("op:", "status:", "fault:")) and k != "ops"},
            "violation_classes_unknown": n_unknown_classes,
            "known_finding_hits": dict(known_hits),
            "cross_process": ({k_: v_ for k_, v_ in cross.items() if k_ != "mismatches"} if cross else None),
            "fixed_finding_witnesses_replayed": regressions_replayed,
            "simulated_time": "n/a - the system under test reads no clock",
            "components_real": "all of efootprint (imported from the /repo working tree), pint, pandas, boaviztapi, ecologits",
            "components_stubbed": "uuid.uuid4 as seen by modeling_object/graph_tools (keyed ids); logger silenced; "
                                  "matplotlib Agg backend; observation-only wrapper around ModelingUpdate.recompute_attributes "
                                  "(records the scheduled recomputation order, then calls the original)",
        },
        "assumptions": [
            "the reference (a system rebuilt from the simulator's spec with the real constructors) shares the library's "
            "formulas: this isolates history/fault dependence, not formula correctness",
            "floating-point re-association between live and rebuilt models is tolerated up to 1e-9 relative",
        ],
        "wall_s": round(wall, 2),
        "violations": len(reported),
    }
    os.makedirs(EVIDENCE, exist_ok=True)
    json.dump(evidence, open(os.path.join(EVIDENCE, f"{prop}.json"), "w"), indent=1)
    for line in known_lines:
        print(line)
    for path, info in reported:
        print(f"VIOLATION property={prop} replay={path}")
        print(f"  oracle={info['oracle']} where={info['where']} op={info.get('op_kind')} :: {(info.get('detail') or '')[:400]}")
    print(f"{prop} {tier}: {len(results)} runs, {stats.get('ops', 0)} steps, endings {dict(ended)}, "
          f"{len(reported)} violation(s), {sum(known_hits.values())} known-finding hit(s), {wall:.0f}s")
    if problems:
        for pmsg in problems[:3]:
            print("HARNESS-PROBLEM:", pmsg[:900], file=sys.stderr)
        if len(problems) > 3:
            print(f"HARNESS-PROBLEM: ... and {len(problems) - 3} more", file=sys.stderr)
    if reported:
        return 1
    if problems:
        return 2
    return 0


def replay(path):
    rp = json.load(open(path))
    prop = rp.get("property") or rp["header"]["property"]
    res = run_replay_file(prop, path)
    v = res.get("violation")
    print(json.dumps({"ended": res.get("ended"), "violation": v, "statuses": res.get("statuses")}, indent=1))
    if v is not None:
        print(f"VIOLATION property={prop} replay={path}")
        return 1
    if res.get("harness_error"):
        print(res["harness_error"], file=sys.stderr)
        return 2
    return 0
