#!/venv/bin/python
"""Run the pinned test suite of /repo (or EFSIM_REPO) and compare with /root/.vp/BASELINE.json stable_pass."""
import json, os, subprocess, sys, tempfile
import xml.etree.ElementTree as ET
repo = sys.argv[1] if len(sys.argv) > 1 else os.environ.get("EFSIM_REPO", "/repo")
base = json.load(open("/root/.vp/BASELINE.json"))
with tempfile.TemporaryDirectory() as d:
    x = os.path.join(d, "j.xml")
    env = dict(os.environ); env.pop("EFOOTPRINT_VERIF", None)
    p = subprocess.run(["/venv/bin/python", "-m", "pytest", "-ra", "-q", "-p", "no:cacheprovider", "--timeout=900",
                        "--continue-on-collection-errors", f"--junitxml={x}"], cwd=repo, capture_output=True, text=True, env=env)
    passed = set()
    for tc in ET.parse(x).getroot().iter("testcase"):
        if not any(c.tag in ("failure", "error", "skipped") for c in tc):
            passed.add(f"{tc.get('classname')}::{tc.get('name')}")
missing = [t for t in base["stable_pass"] if t not in passed]
print(f"passed {len(passed)}; baseline {len(base['stable_pass'])}; baseline tests not passing: {len(missing)}")
for m in missing: print("  MISSING", m)
sys.exit(1 if missing else 0)
