"""Property monitors (one per claimed property).  Each enables only its own oracles."""
import copy

from efsim import spec as S, compare as C, opgen
from efsim.runner import BaseMonitor, Violation, op_kind


def totals(system):
    return {"energy": C.norm(system.total_energy_footprint_sum_over_period),
            "fabrication": C.norm(system.total_fabrication_footprint_sum_over_period)}


def reference_world(sim):
    """What a system freshly built from the same final inputs computes (same keyed ids as the live world)."""
    return S.build_world(sim.spec, sim.salt)


class C01(BaseMonitor):
    """Incremental recomputation equals recomputation from scratch."""
    prop = "C01"

    def on_start(self):
        self.initial_totals = totals(self.sim.world.system)
        self.check_reference(-1, {"op": "initial"})
        self.prev_snapshot = None
        self.snap_two_back = None
        self.history = []

    def next_op(self, i):
        r = self.k.rng("op", i)
        # (the list of usage patterns of the system is not undone by plain re-assignment: that would leave a usage
        # pattern on a used journey outside the system, a description the library cannot build - envelope W4)
        hist = [h for h in getattr(self, "history", []) if h["obj"] in self.sim.spec["objs"]
                and self.sim.spec["objs"][h["obj"]]["cls"] != "System"]
        if hist and r.random() < 0.1:
            # undo: re-assign the value an input (or link, or list) had before one of the last accepted edits
            h = hist[-1] if r.random() < 0.6 else r.choice(hist)
            return {"op": "set", "obj": h["obj"], "attr": h["attr"], "value": copy.deepcopy(h["value"]), "src": h["src"],
                    "undo_of": h["i"], "reuse": h is hist[-1] and r.random() < 0.5, "i": i}
        return opgen.gen_edit(r, self.sim.spec, self.cfg, i, focus=getattr(self, 'focus', None))

    def step(self, i, op):
        sim = self.sim
        system = sim.world.system
        in_closure_before = set(S.closure(sim.spec))
        spec_before = copy.deepcopy(sim.spec["objs"])
        before = totals(system) if op["op"] in ("set", "list", "group") else None
        snap_before = C.calc_snapshot(sim.world, [n for n in in_closure_before if n in sim.world.objs])
        touched_before = {}
        if before is not None:
            for ch in (op["changes"] if op["op"] == "group" else [op]):
                if ch["obj"] in sim.world.objs:
                    touched_before[(ch["obj"], ch["attr"])] = sim.world.objs[ch["obj"]].__dict__.get(ch["attr"])
        self.touched_before = touched_before
        prev_value = None
        if op["op"] == "set" and op["obj"] in sim.spec["objs"]:
            prev_value = {"obj": op["obj"], "attr": op["attr"], "i": i,
                          "value": copy.deepcopy(sim.spec["objs"][op["obj"]]["attrs"].get(op["attr"])),
                          "src": sim.spec["objs"][op["obj"]].get("src", {}).get(op["attr"])}
        status, ret = self.execute(op)
        if status == "ok" and prev_value is not None and prev_value["value"] is not None:
            if not hasattr(self, "history"):
                self.history = []
            self.history.append(prev_value)
            self.history = self.history[-6:]
        prev_op_i, self.prev_op_i = getattr(self, "prev_op_i", None), op.get("i", i)
        # (recorded op numbers, not positions: a minimised history must not turn "undo of 3" into "undo of its neighbour")
        if (status == "ok" and op.get("undo_of") is not None and op["undo_of"] == prev_op_i
                and self.snap_two_back is not None):
            # "undoing an edit restores the previous footprints": compare with the snapshot taken before that edit
            now = C.calc_snapshot(sim.world, [n for n in S.closure(sim.spec)])
            d = C.diff_snapshots(self.snap_two_back, now, self.cls_of)
            self.res.count("undo_checked")
            if d:
                raise Violation("C01", "undo_does_not_restore", self.where_of(d), self.fmt(d), i, op_kind(op))
        self.snap_two_back = snap_before
        if status == "skip":
            return "skip"
        if status == "hang":
            raise Violation("C01", "hang", {op_kind(op)}, f"accepted edit does not return (> watchdog) in {ret.site}",
                            i, op_kind(op))
        if status == "raised":
            if crash_site(ret) is None and type(ret).__name__ in ("AttributeError", "KeyError", "TypeError", "IndexError",
                                                                  "AssertionError", "RecursionError"):
                # neither a refusal by validation (ValueError / PermissionError) nor an update function that cannot
                # cope with the new inputs: the update machinery itself crashes on an edit it accepted
                raise Violation("C01", "accepted_edit_crashes_in_the_engine", {f"{op_kind(op)}:{type(ret).__name__}"},
                                f"{op_kind(op)} on {op.get('obj')}.{op.get('attr')} raises {type(ret).__name__}: "
                                f"{str(ret)[:200]}", i, op_kind(op))
            # not an accepted edit: C01 says nothing; the live world may be half-updated, so the run ends
            self.res.count("ended_on_raise:" + type(ret).__name__)
            self.stop = "op_raised"
            return "raised"
        self.check_reference(i, op)
        self.check_before_after_reference(i, op, before, spec_before, in_closure_before)
        return "ok"

    def check_reference(self, i, op):
        sim = self.sim
        try:
            ref = reference_world(sim)
        except (ValueError, PermissionError) as e:
            # the library refuses to build this description from scratch: outside the envelope (W4)
            self.res.count("left_envelope:" + type(e).__name__)
            self.stop = "left_envelope"
            return
        except Exception as e:
            # not a refusal but a crash (KeyError, AttributeError, ...) on a description that the live model
            # accepted edit by edit: there is nothing the live values could be equal to
            raise Violation("C01", "fresh_build_crash", {type(e).__name__},
                            f"building the final inputs from scratch crashes: {type(e).__name__}: {str(e)[:200]}",
                            i, op_kind(op))
        names = S.closure(sim.spec)
        live = C.calc_snapshot(sim.world, names)
        fresh = C.calc_snapshot(ref, names)
        diffs = C.diff_snapshots(live, fresh, self.cls_of)
        self.res.count("values_compared", len(live))
        if diffs:
            raise Violation("C01", "live_vs_fresh", self.where_of(diffs), self.fmt(diffs), i, op_kind(op))

    def check_before_after_reference(self, i, op, before, spec_before, in_closure_before):
        sim = self.sim
        system = sim.world.system
        now_initial = {"energy": C.norm(system.initial_total_energy_footprints_sum_over_period),
                       "fabrication": C.norm(system.initial_total_fabrication_footprints_sum_over_period)}
        for key in ("energy", "fabrication"):
            ok, why = C.phys_equal(now_initial[key], self.initial_totals[key])
            if not ok:
                raise Violation("C01", "initial_totals", {f"System.initial_total_{key}"}, why, i, op_kind(op))
        if before is None:
            return
        touched = [ch["obj"] for ch in (op["changes"] if op["op"] == "group" else [op])]
        # effective = the library really replaced a value (an equal-value assignment is skipped as a no-op, whatever
        # the unit it is expressed in, and then leaves its before/after reference untouched)
        effective = any(n in sim.world.objs and sim.world.objs[n].__dict__.get(a) is not old
                        for (n, a), old in self.touched_before.items())
        if not effective or not any(n in in_closure_before for n in touched):
            return
        prev = {"energy": C.norm(system.previous_total_energy_footprints_sum_over_period),
                "fabrication": C.norm(system.previous_total_fabrication_footprints_sum_over_period)}
        for key in ("energy", "fabrication"):
            ok, why = C.phys_equal(prev[key], before[key])
            if not ok:
                raise Violation("C01", "previous_totals", {f"System.previous_total_{key}"}, why, i, op_kind(op))
        self.res.count("before_after_checked")


MONITORS = {"C01": C01}


# ---------------------------------------------------------------------------------------------------
# C16

def raised_in_update_function(exc):
    """True if the exception was thrown while an update_<attr> function of the library was running
    (a natural recomputation fault), False if it comes from the link / validation machinery itself."""
    tb = exc.__traceback__
    while tb is not None:
        code = tb.tb_frame.f_code
        if code.co_name.startswith("update_") and "/efootprint/" in code.co_filename and (
                "/core/" in code.co_filename or "/builders/" in code.co_filename):
            return True
        tb = tb.tb_next
    return False


def expected_lookups(spec):
    """Reverse look-ups implied by the forward links of the spec (recomputed from scratch, plain Python)."""
    O = spec["objs"]
    users = {n: set() for n in O}
    for n, o in O.items():
        for a, v in o["attrs"].items():
            if v is None:
                continue
            if v[0] == "ref" and v[1] in users:
                users[v[1]].add(n)
            elif v[0] == "refs":
                for m in v[1]:
                    if m in users:
                        users[m].add(n)
    cls = {n: O[n]["cls"] for n in O}
    is_job = lambda n: cls[n] in S.JOB_CLASSES
    steps_of_job = {j: {u for u in users[j] if cls[u] == "UsageJourneyStep"} for j in O if is_job(j)}
    ujs_of_step = {s: {u for u in users[s] if cls[u] == "UsageJourney"} for s in O if cls[s] == "UsageJourneyStep"}
    ups_of_uj = {j: {u for u in users[j] if cls[u] == "UsagePattern"} for j in O if cls[j] == "UsageJourney"}
    ups_of_step = {s: set().union(*[ups_of_uj[uj] for uj in ujs_of_step[s]]) if ujs_of_step[s] else set()
                   for s in ujs_of_step}
    ups_of_job = {j: set().union(*[ups_of_step[s] for s in steps_of_job[j]]) if steps_of_job[j] else set()
                  for j in steps_of_job}

    def server_of_job(j):
        a = O[j]["attrs"]
        if "server" in a:
            return a["server"][1]
        return O[a["service"][1]]["attrs"]["server"][1]

    jobs_of_server = {s: {j for j in O if is_job(j) and server_of_job(j) == s} for s in O if cls[s] in S.SERVER_CLASSES}
    out = {"users": users, "steps_of_job": steps_of_job, "ujs_of_step": ujs_of_step, "ups_of_uj": ups_of_uj,
           "ups_of_step": ups_of_step, "ups_of_job": ups_of_job, "jobs_of_server": jobs_of_server,
           "net_of_up": {u: O[u]["attrs"]["network"][1] for u in O if cls[u] == "UsagePattern"},
           "in_system": set(S.closure(spec))}
    return out


def names(xs):
    return sorted(x.name for x in xs)


class C16(BaseMonitor):
    """Links between objects stay consistent under every kind of edit."""
    prop = "C16"

    def on_start(self):
        self.check_links(-1, {"op": "initial"})

    def next_op(self, i):
        return opgen.gen_edit(self.k.rng("op", i), self.sim.spec, self.cfg, i, mix=opgen.C16_MIX, focus=getattr(self, 'focus', None))

    # -- observation of the live links (no spec involved) -----------------------------------------
    def live_links(self):
        w = self.sim.world
        out = {}
        for n, o in w.objs.items():
            sp = self.sim.spec["objs"][n]
            for a, v in sp["attrs"].items():
                if v is None:
                    continue
                if v[0] == "ref":
                    tgt = getattr(o, a)
                    out[(n, a)] = tgt.name if tgt is not None else None
                elif v[0] == "refs":
                    out[(n, a)] = [x.name for x in getattr(o, a)]
            out[(n, "<containers>")] = names(o.modeling_obj_containers)
        return out

    def step(self, i, op):
        sim = self.sim
        if op["op"] == "second_system" and op.get("before"):
            # preparatory creations are ordinary accepted operations: "refused op changed nothing" is judged from here
            for sub in op["before"]:
                st, rt = self.execute(sub)
                if st != "ok":
                    self.stop = "op_raised"
                    return "raised"
            op = {k_: v for k_, v in op.items() if k_ != "before"}
        if op["op"] == "cross_system":
            return self.step_cross_system(i, op)
        before = self.live_links()
        sim.expect = None
        status, ret = self.execute(op)
        kind = op["op"]
        if status == "skip":
            return "skip"
        if status == "hang":
            raise Violation("C16", "hang", {op_kind(op)}, f"link operation does not return in {ret.site}", i, op_kind(op))
        expect_exc = None
        if kind == "list" and sim.expect is not None:
            expect_exc = sim.expect["exc"]
        elif kind == "delete" and op.get("expect") == "refused":
            expect_exc = "PermissionError"
        elif kind == "second_system":
            expect_exc = "PermissionError"
        if status == "raised":
            got = type(ret).__name__
            if raised_in_update_function(ret):
                # a natural recomputation fault (capacity, storage...) is not a statement about links
                self.res.count("ended_on_recomputation_fault:" + got)
                self.stop = "op_raised"
                return "raised"
            if expect_exc is None and kind == "list" and op["method"] == "setslice" and got == "ValueError":
                # slice assignment is not offered by the library: it has to be refused before anything changes
                expect_exc = "ValueError"
                self.res.count("slice_assignment_refused")
            if expect_exc is None:
                raise Violation("C16", "unexpected_exception", {f"{op_kind(op)}:{got}"},
                                f"{op_kind(op)} raised {got}: {str(ret)[:200]} where a Python list / a plain "
                                f"assignment raises nothing", i, op_kind(op))
            if got != expect_exc:
                raise Violation("C16", "wrong_exception", {f"{op_kind(op)}:{got}"},
                                f"raised {got} ({str(ret)[:120]}), expected {expect_exc}", i, op_kind(op))
            after = self.live_links()
            changed = [k for k in before.keys() | after.keys() if before.get(k) != after.get(k)]
            if changed:
                raise Violation("C16", "refused_op_changed_links", {f"{self.cls_of(k[0])}.{k[1]}" for k in changed
                                                                     if k[0] in sim.spec["objs"]} or {"?"},
                                f"{op_kind(op)} raised {got} but links changed: {sorted(changed)[:5]}", i, op_kind(op))
            self.res.count("fault:expected_" + got)
            self.check_links(i, op)
            return "refused"
        # accepted
        if expect_exc is not None:
            raise Violation("C16", "missing_exception", {f"{op_kind(op)}:{expect_exc}"},
                            f"{op_kind(op)} {op.get('args', '')} was accepted, expected {expect_exc}", i, op_kind(op))
        if kind == "list" and op["method"] == "pop":
            got_name = getattr(ret, "name", None)
            if got_name != sim.expect["ret"]:
                raise Violation("C16", "wrong_return", {"list:pop"}, f"pop returned {got_name}, expected "
                                f"{sim.expect['ret']}", i, op_kind(op))
        self.check_links(i, op)
        return "ok"

    def step_cross_system(self, i, op):
        """'An object can never end up in two systems', through link edits between two computed systems.  Terminal
        op of a run (the spec-level link model describes one system)."""
        sim = self.sim
        if op.get("prep"):
            st, rt = self.execute(dict(op["prep"], i=i))
            if st != "ok":
                self.stop = "op_raised"
                return "raised"
            self.check_links(i, op["prep"])
            self.res.count("fault:cross_system_after_in_place_emptying")
        st, rt = self.execute({"op": "clone_system", "suffix": op["suffix"]})
        if st != "ok":
            self.stop = "op_raised"
            return "raised"
        if op.get("fresh_copy_of"):
            # indirect variant: a new object, in no system, that links to objects of the first system
            st, rt = self.execute({"op": "copy_object", "of": op["fresh_copy_of"], "name": op["arg"]})
            if st != "ok":
                self.stop = "op_raised"
                return "raised"
        before = self.world_links()
        status, ret = self.execute(op)
        self.res.count("fault:cross_system_" + ("indirect_" if op.get("fresh_copy_of") else "") + op["attr"])
        self.stop = "two_system_probe_done"
        in_two = sorted(n for n, o in sim.world.objs.items() if len(o.systems) > 1)
        if in_two:
            raise Violation("C16", "object_in_two_systems",
                            {self.cls_of(op["target"].replace(op["suffix"], "")) + "." + op["attr"]},
                            f"{op['target']}.{op['attr']} {op['method']} {op['arg']} "
                            f"{'was accepted' if status == 'ok' else 'raised ' + type(ret).__name__}: now linked to two "
                            f"systems: {in_two[:8]}", i, op_kind(op))
        if status == "hang":
            raise Violation("C16", "hang", {op_kind(op)}, f"cross-system edit does not return in {ret.site}", i, op_kind(op))
        if status == "raised":
            # a refused edit changes no link, no reverse look-up, and leaves every live list attached to its object
            after = self.world_links()
            changed = sorted(k for k in before.keys() | after.keys() if before.get(k) != after.get(k))
            if changed:
                raise Violation("C16", "refused_op_changed_links",
                                {self.cls_of(op["target"].replace(op["suffix"], "")) + "." + op["attr"]},
                                f"{op['target']}.{op['attr']} {op['method']} {op['arg']} raised {type(ret).__name__} but "
                                f"changed {[(k, before.get(k), after.get(k)) for k in changed[:4]]}", i, op_kind(op))
        return "refused" if status == "raised" else "ok"

    def world_links(self):
        """Forward links (with attachment flags), reverse look-ups and systems of every live object, spec or not."""
        from efootprint.abstract_modeling_classes.contextual_modeling_object_attribute import \
            ContextualModelingObjectAttribute
        from efootprint.abstract_modeling_classes.list_linked_to_modeling_obj import ListLinkedToModelingObj
        out = {}
        for n, o in self.sim.world.objs.items():
            for attr, val in list(o.__dict__.items()):
                if isinstance(val, ListLinkedToModelingObj):
                    out[(n, attr)] = ([x.name for x in val], val.modeling_obj_container is o,
                                      all(x.modeling_obj_container is o for x in val))
                elif isinstance(val, ContextualModelingObjectAttribute):
                    out[(n, attr)] = (val.name, val.modeling_obj_container is o)
            out[(n, "<containers>")] = names(o.modeling_obj_containers)
            out[(n, "<systems>")] = names(o.systems)
        return out

    def check_links(self, i, op):
        sim = self.sim
        spec, w = sim.spec, sim.world
        O = spec["objs"]
        E = expected_lookups(spec)
        bad = []

        def expect(name, what, got, want):
            if got != want:
                bad.append(((name, what), f"{got} != expected {want}"))

        for n, o in w.objs.items():
            sp = O[n]
            for a, v in sp["attrs"].items():
                if v is None:
                    continue
                if v[0] == "ref":
                    expect(n, a, getattr(o, a).name, v[1])
                elif v[0] == "refs":
                    lst = getattr(o, a)
                    expect(n, a, [x.name for x in lst], list(v[1]))
                    if lst.modeling_obj_container is not o or lst.attr_name_in_mod_obj_container != a:
                        bad.append(((n, a), "live list is not attached to its object"))
                    for x in lst:
                        if x.modeling_obj_container is not o or x.attr_name_in_mod_obj_container != a:
                            bad.append(((n, a), f"wrapper of {x.name} not attached to {n}.{a}"))
                            break
            conts = o.modeling_obj_containers
            expect(n, "modeling_obj_containers", names(conts), sorted(E["users"][n]))
            c = sp["cls"]
            want_sys = ["sys"] if n in E["in_system"] else []
            expect(n, "systems", names(o.systems), want_sys)
            if c in S.JOB_CLASSES:
                expect(n, "usage_journey_steps", names(o.usage_journey_steps), sorted(E["steps_of_job"][n]))
                expect(n, "usage_patterns", names(o.usage_patterns), sorted(E["ups_of_job"][n]))
                expect(n, "networks", names(o.networks), sorted({E["net_of_up"][u] for u in E["ups_of_job"][n]}))
            elif c == "UsageJourneyStep":
                expect(n, "usage_journeys", names(o.usage_journeys), sorted(E["ujs_of_step"][n]))
                expect(n, "usage_patterns", names(o.usage_patterns), sorted(E["ups_of_step"][n]))
            elif c == "UsageJourney":
                expect(n, "usage_patterns", names(o.usage_patterns), sorted(E["ups_of_uj"][n]))
                want_jobs = [j for s in sp["attrs"]["uj_steps"][1] for j in O[s]["attrs"]["jobs"][1]]
                expect(n, "jobs", [j.name for j in o.jobs], want_jobs)
            elif c in S.SERVER_CLASSES:
                expect(n, "jobs", names(o.jobs), sorted(E["jobs_of_server"][n]))
                expect(n, "installed_services", names(o.installed_services),
                       sorted(m for m in O if O[m]["cls"] in S.SERVICE_CLASSES and O[m]["attrs"]["server"][1] == n))
            elif c == "Storage":
                srvs = [m for m in O if O[m]["cls"] in S.SERVER_CLASSES and O[m]["attrs"]["storage"][1] == n]
                want = set()
                for s_ in srvs:
                    want |= E["jobs_of_server"][s_]
                expect(n, "jobs", names(o.jobs), sorted(want))
            elif c in ("Network", "Country"):
                expect(n, "usage_patterns", names(o.usage_patterns), sorted(u for u in E["users"][n]))
            elif c in S.SERVICE_CLASSES:
                expect(n, "jobs", names(o.jobs), sorted(E["users"][n]))
            elif c == "System":
                ups = sp["attrs"]["usage_patterns"][1]
                expect(n, "networks", names(o.networks), sorted({E["net_of_up"][u] for u in ups}))
                expect(n, "usage_journeys", names(o.usage_journeys),
                       sorted({O[u]["attrs"]["usage_journey"][1] for u in ups}))
                expect(n, "servers", names(o.servers), sorted(
                    {m for m in E["in_system"] if O[m]["cls"] in S.SERVER_CLASSES and E["jobs_of_server"][m] & {
                        j for j in E["in_system"] if O[j]["cls"] in S.JOB_CLASSES and E["ups_of_job"][j]}}))
        self.res.count("lookups_checked", len(w.objs))
        if bad:
            where = {f"{self.cls_of(k[0])}.{k[1]}" for k, _ in bad}
            raise Violation("C16", "links", where, self.fmt(sorted(bad)), i, op_kind(op))


MONITORS["C16"] = C16


# ---------------------------------------------------------------------------------------------------
# C14

from efsim import identity, faults, gen  # noqa: E402
from efsim.sim import Sim  # noqa: E402

FAULT_OPS = ("bad_set", "bad_group", "bad_list", "bad_construct")


def all_pairs():
    """(class, parameter) pairs of the public class list, in a fixed order."""
    out = []
    from efootprint.core.all_classes_in_order import ALL_EFOOTPRINT_CLASSES
    for c in ALL_EFOOTPRINT_CLASSES:
        for attr, kind in S.params_of(c.__name__):
            if kind not in ("name", "str"):
                out.append((c.__name__, attr))
    return out


class FaultMonitorMixin:
    """Shared by the fault-centred properties: lazily built control twin for attribution (DESIGN 2.6)."""

    def fault_free_replay_is_clean(self):
        """Re-run the accepted, non-fault part of the history on a second world with the same keyed ids and
        compare it with the fresh reference: False means the engine itself deviates on this history."""
        twin = Sim(self.res.header["spec"], self.sim.salt)
        for op in self.res.ops:
            if op["op"] in FAULT_OPS or op.get("fault"):
                continue
            try:
                twin.apply(op)
            except Exception:
                return False
        try:
            ref = S.build_world(twin.spec, twin.salt)
        except Exception:
            return False
        names_ = S.closure(twin.spec)
        d = C.diff_snapshots(C.calc_snapshot(twin.world, names_), C.calc_snapshot(ref, names_),
                             lambda n: twin.spec["objs"][n]["cls"])
        return not d

    def compare_with_reference(self, i, op, prop, oracle):
        sim = self.sim
        try:
            ref = reference_world(sim)
        except Exception as e:
            self.res.count("left_envelope:" + type(e).__name__)
            self.stop = "left_envelope"
            return
        names_ = S.closure(sim.spec)
        diffs = C.diff_snapshots(C.calc_snapshot(sim.world, names_), C.calc_snapshot(ref, names_), self.cls_of)
        self.res.count("values_compared", len(names_))
        if diffs:
            if not self.fault_free_replay_is_clean():
                self.res.count("inconclusive_engine_defect")
                self.stop = "inconclusive_engine_defect"
                return
            raise Violation(prop, oracle, self.where_of(diffs), self.fmt(diffs), i, op_kind(op))


class C14(FaultMonitorMixin, BaseMonitor):
    """Invalid inputs are rejected, and a rejected edit changes nothing."""
    prop = "C14"

    def __init__(self, sim, k, cfg, res, opts):
        super().__init__(sim, k, cfg, res, opts)
        self.queue = None
        self.pending_fault_check = False

    @staticmethod
    def spec_generator(k, cfg, index):
        (_, _), variant = C14.plan(index)
        if variant < 2:
            return gen.full_spec(k, cfg)
        cfg["builders"] = True
        return gen.gen_spec(k, cfg)

    @staticmethod
    def plan(index):
        pairs = all_pairs()
        return pairs[index % len(pairs)], index // len(pairs)

    def on_start(self):
        idx = self.res.header["index"]
        (cls_name, attr), variant = self.plan(idx)
        self.mode = "enumeration" if variant < 2 else "history"
        self.continue_after_violation = self.mode == "enumeration"
        self.res.extra = {"mode": self.mode, "pair": f"{cls_name}.{attr}"}
        if self.mode == "enumeration":
            spec = self.sim.spec
            entries = [e for e in faults.catalogue(spec, cls_name) if e["attr"] == attr]
            q = []
            for e in entries:
                base = {"obj": e["obj"], "attr": e["attr"], "value": e["value"], "fault": e["fault"], "strong": e["strong"]}
                q.append(dict(base, op="bad_construct", like=e["obj"]))
                q.append(dict(base, op="bad_set"))
                other = self.valid_change(exclude=e["obj"])
                if other is not None:
                    bad = {"obj": e["obj"], "attr": e["attr"], "value": e["value"]}
                    # companions: a value change in one order, a link or list change (when one exists) in the other
                    other2 = self.valid_change(exclude=e["obj"], kinds=("link", "list"), tag=e["fault"]) or other
                    q.append({"op": "bad_group", "changes": [other, bad], "fault": e["fault"], "strong": e["strong"],
                              "obj": e["obj"], "attr": e["attr"]})
                    q.append({"op": "bad_group", "changes": [bad, other2], "fault": e["fault"], "strong": e["strong"],
                              "obj": e["obj"], "attr": e["attr"]})
                    if other2 is not other:
                        q.append({"op": "bad_group", "changes": [other2, other, bad], "fault": e["fault"],
                                  "strong": e["strong"], "obj": e["obj"], "attr": e["attr"]})
                # ... and after a valid change of another input of the very same object
                sibling = self.valid_change_on(e["obj"], e["attr"])
                if sibling is not None:
                    bad = {"obj": e["obj"], "attr": e["attr"], "value": e["value"]}
                    q.append({"op": "bad_group", "changes": [sibling, bad], "fault": e["fault"] + ":after_same_object_change",
                              "strong": e["strong"], "obj": e["obj"], "attr": e["attr"]})
                    # ... and right after a change that changes nothing (a form re-submitting every field): the
                    # library drops such no-op changes from the list while parsing it
                    same = {"obj": other["obj"], "attr": other["attr"],
                            "value": copy.deepcopy(spec["objs"][other["obj"]]["attrs"][other["attr"]])}
                    q.append({"op": "bad_group", "changes": [same, bad], "fault": e["fault"] + ":after_noop",
                              "strong": e["strong"], "obj": e["obj"], "attr": e["attr"]})
                    q.append({"op": "bad_group", "changes": [other, same, bad], "fault": e["fault"] + ":after_valid_and_noop",
                              "strong": e["strong"], "obj": e["obj"], "attr": e["attr"]})
                if e["fault"] in ("list_with_wrong_class", "list_with_non_object", "list_with_wrong_class_read_from_model"):
                    wrong = 3.5 if e["fault"] == "list_with_non_object" else e["value"][1][-1]
                    for m in ("append", "insert", "extend", "iadd", "setitem"):
                        if m == "setitem" and not spec["objs"][e["obj"]]["attrs"][e["attr"]][1]:
                            continue
                        q.append({"op": "bad_list", "obj": e["obj"], "attr": e["attr"], "method": m, "bad": wrong,
                                  "as_read": e["fault"].endswith("read_from_model"),
                                  "fault": e["fault"] + ":" + m, "strong": True})
            self.queue = q

    def valid_change_on(self, name, other_than):
        """A valid value change of another numeric input of object `name`."""
        r = self.k.rng("valid-change-on", name, other_than)
        spec = self.sim.spec
        attrs = [a for a in opgen.editable_numeric(spec, name) if a != other_than]
        if not attrs:
            return None
        a = r.choice(attrs)
        o = spec["objs"][name]
        return {"obj": name, "attr": a, "value": opgen.new_quantity(r, o["cls"], a, o["attrs"][a], allow_zero=False),
                "src": ["user data", None], "label": f"{a} of {name} (companion)"}

    def valid_change(self, exclude, kinds=("numeric",), tag=""):
        r = self.k.rng("valid-change", exclude, kinds, tag)
        spec = self.sim.spec
        fns = {"numeric": opgen.gen_numeric, "link": opgen.gen_link, "list": opgen.gen_list_assign}
        for _ in range(10):
            try:
                sub = fns[r.choice(kinds)](r, spec, self.cfg, set(S.closure(spec)), 0)
            except (IndexError, ValueError):
                sub = None
            if sub is not None and sub["op"] == "set" and sub["obj"] != exclude:
                return {k_: v for k_, v in sub.items() if k_ != "op"}
        return None

    def next_op(self, i):
        if self.mode == "enumeration":
            if i >= len(self.queue):
                return None
            op = dict(self.queue[i])
            op["i"] = i
            return op
        if i >= self.opts.get("history_ops", 14):
            return None
        r = self.k.rng("op", i)
        spec = self.sim.spec
        if r.random() < max(0.3, self.cfg.get("fault_rate", 0.2)):
            present = sorted({o["cls"] for o in spec["objs"].values()})
            cls_name = r.choice(present)
            entries = faults.catalogue(spec, cls_name)
            if entries:
                e = r.choice(entries)
                bad = {"obj": e["obj"], "attr": e["attr"], "value": e["value"]}
                if e["fault"] in ("list_with_wrong_class", "list_with_non_object") and r.random() < 0.6:
                    wrong = e["value"][1][-1] if e["fault"] == "list_with_wrong_class" else 3.5
                    m = r.choice(["append", "insert", "extend", "iadd"] + (
                        ["setitem"] if spec["objs"][e["obj"]]["attrs"][e["attr"]][1] else []))
                    return {"op": "bad_list", "obj": e["obj"], "attr": e["attr"], "method": m, "bad": wrong,
                            "fault": e["fault"] + ":" + m, "strong": True, "i": i}
                if r.random() < 0.35:
                    try:
                        other = r.choice([opgen.gen_numeric, opgen.gen_numeric, opgen.gen_link, opgen.gen_list_assign])(
                            r, spec, self.cfg, set(S.closure(spec)), i)
                    except (IndexError, ValueError):
                        other = None
                    if other is not None and other["op"] == "set" and other["obj"] != e["obj"]:
                        other = {k_: v for k_, v in other.items() if k_ != "op"}
                        ch = [other, bad] if r.random() < 0.5 else [bad, other]
                        if r.random() < 0.3:
                            same = {"obj": other["obj"], "attr": other["attr"],
                                    "value": copy.deepcopy(spec["objs"][other["obj"]]["attrs"][other["attr"]])}
                            ch = [same, bad]
                        return {"op": "bad_group", "changes": ch, "fault": e["fault"], "strong": e["strong"],
                                "obj": e["obj"], "attr": e["attr"], "i": i}
                return dict(bad, op="bad_set", fault=e["fault"], strong=e["strong"], i=i)
        return opgen.gen_edit(r, spec, self.cfg, i, focus=getattr(self, 'focus', None))

    def step(self, i, op):
        sim = self.sim
        if op["op"] not in FAULT_OPS:
            status, ret = self.execute(op)
            if status == "raised":
                self.res.count("ended_on_raise:" + type(ret).__name__)
                self.stop = "op_raised"
                return "raised"
            if status == "hang":
                self.stop = "hang_in_plain_edit"
                return "hang"
            if status == "ok" and self.pending_fault_check:
                # "the control twin still agrees afterwards": the first accepted edit after a refusal
                self.compare_with_reference(i, op, "C14", "edit_after_refusal_deviates")
                self.pending_fault_check = False
            return status
        fault = f"{self.cls_of(op['obj'])}.{op['attr']}:{op['fault']}"
        construct = op["op"] == "bad_construct"
        before, pins = (None, None) if construct else identity.snapshot(sim.world)
        status, ret = self.execute(op)
        if status == "skip":
            return "skip"
        if status == "hang":
            raise Violation("C14", "hang", {fault}, f"invalid value makes the call hang in {ret.site}", i, op_kind(op))
        self.res.count("fault:" + op["fault"].split(":")[0] + ("" if op["strong"] else "(weak)"))
        if status == "ok":
            if op["strong"]:
                raise Violation("C14", "accepted_invalid" + ("_at_construction" if construct else ""), {fault},
                                f"{op['op']} with {op['fault']} value {str(op.get('value', op.get('bad')))[:80]} "
                                f"was accepted", i, op_kind(op))
            self.res.count("weak_fault_accepted")
            if self.mode == "enumeration":
                # the statement does not require this value to be refused: go on with the catalogue on a rebuilt world
                sim.world = S.build_world(sim.spec, sim.salt)
                return "accepted"
            self.stop = "weak_fault_accepted"
            return "accepted"
        self.res.count("refused:" + type(ret).__name__)
        if construct:
            ghosts = getattr(ret, "efsim_ghost_links", None)
            if ghosts:
                # "refused at construction": the objects that the half-built object was given must not report it
                raise Violation("C14", "refused_construction_left_links", {fault},
                                f"constructing {op['like']}-like object with {op['fault']} raised {type(ret).__name__} "
                                f"but these objects still list the half-built object among their users: {ghosts[:6]}",
                                i, op_kind(op))
            return "refused"
        in_recomputation = raised_in_update_function(ret)
        if in_recomputation and not op["strong"]:
            # accepted by validation, failed while recomputing: that is C15's subject, not a refusal
            self.res.count("weak_fault_failed_in_recomputation")
            if self.mode == "enumeration":
                sim.world = S.build_world(sim.spec, sim.salt)
                return "raised"
            self.stop = "weak_fault_failed_in_recomputation"
            return "raised"
        after, pins2 = identity.snapshot(sim.world)
        d = identity.diff(before, after)
        if d:
            where = {f"{self.cls_of(k_[0])}.{k_[1]}" for k_, _ in d if k_[0] in sim.spec["objs"]}
            oracle = "invalid_value_installed" if in_recomputation else "refused_edit_changed_model"
            raise Violation("C14", oracle, where or {"?"},
                            f"{fault} refused with {type(ret).__name__} but: " + "; ".join(
                                f"{k_}: {why}" for k_, why in d[:5]) + (f" (+{len(d) - 5} more)" if len(d) > 5 else ""),
                            i, op_kind(op))
        self.pending_fault_check = True
        return "refused"


MONITORS["C14"] = C14


# ---------------------------------------------------------------------------------------------------
# C15

def crash_site(exc):
    """Innermost update_<attr> frame of the library in the traceback: 'Class.update_x' (or None)."""
    tb = exc.__traceback__
    site = None
    while tb is not None:
        code = tb.tb_frame.f_code
        if code.co_name.startswith("update_") and "/efootprint/" in code.co_filename:
            self_ = tb.tb_frame.f_locals.get("self")
            site = f"{type(self_).__name__ if self_ is not None else '?'}.{code.co_name}"
        tb = tb.tb_next
    return site


def crash_object(exc):
    """The modeling object whose update_<attr> raised (innermost such frame), or None."""
    tb = exc.__traceback__
    obj = None
    while tb is not None:
        code = tb.tb_frame.f_code
        if code.co_name.startswith("update_") and "/efootprint/" in code.co_filename:
            obj = tb.tb_frame.f_locals.get("self")
        tb = tb.tb_next
    return obj


class C15(FaultMonitorMixin, BaseMonitor):
    """A failed recomputation can always be recovered from."""
    prop = "C15"

    def __init__(self, sim, k, cfg, res, opts):
        super().__init__(sim, k, cfg, res, opts)
        self.broken = []            # [(revert op, site)] in failure order
        self.extra_while_broken = 0
        self.episodes = 0
        self.recovering = False

    @staticmethod
    def spec_generator(k, cfg, index):
        # (jobs that delete data only in a quarter of the runs: there the storage's base need is an input whose
        # lowering makes the cumulative storage need negative)
        cfg["deleting_jobs"] = index % 4 == 1
        if index % 3 == 0:
            cfg["builders"] = True
        return gen.gen_spec(k, cfg)

    def revert_op_for(self, op):
        spec = self.sim.spec
        if op["op"] == "group":
            return {"op": "group", "revert": True, "changes": [
                {"obj": ch["obj"], "attr": ch["attr"], "value": copy.deepcopy(spec["objs"][ch["obj"]]["attrs"][ch["attr"]]),
                 "src": spec["objs"][ch["obj"]].get("src", {}).get(ch["attr"])} for ch in op["changes"]]}
        if op["op"] == "set":
            return {"op": "set", "revert": True, "obj": op["obj"], "attr": op["attr"],
                    "value": copy.deepcopy(spec["objs"][op["obj"]]["attrs"][op["attr"]]),
                    "src": spec["objs"][op["obj"]].get("src", {}).get(op["attr"]),
                    "reuse": self.k.chance(0.5, "reuse-old-object", op.get("i"))}
        if op["op"] == "compound" and op.get("tag", "").startswith("create_then_list_"):
            # the failing part is the in-place list edit: the previous list is assigned back
            return {"op": "set", "revert": True, "obj": op["obj"], "attr": op["attr"], "after_list_edit": True,
                    "value": copy.deepcopy(spec["objs"][op["obj"]]["attrs"][op["attr"]]), "src": None}
        return None

    def next_op(self, i):
        r = self.k.rng("op", i)
        spec = self.sim.spec
        if self.broken:
            # (a failed in-place list edit is recovered from at once, and is not stacked on other failures: the job it
            # lists stays linked to its server whatever happens to the list, and what the oracle may then expect from
            # re-assignments made in another order has not been established)
            after_list_edit = any(b[0].get("after_list_edit") for b in self.broken)
            if not self.recovering and not after_list_edit and self.extra_while_broken < 3 and r.random() < 0.45:
                self.extra_while_broken += 1
                if r.random() < 0.5:
                    cands = faults.failing_edits(self.sim, r)
                    cands = [c for c in cands if self.revert_key(c) not in {self.revert_key(b[0]) for b in self.broken}
                             and self.live_in_system(c) and c["op"] != "compound"]
                    if cands:
                        op = r.choice(cands)
                        op["i"] = i
                        return op
                op = opgen.gen_numeric(r, spec, self.cfg, set(S.closure(spec)), i)
                if op is not None and self.revert_key(op) not in {self.revert_key(b[0]) for b in self.broken} \
                        and self.live_in_system(op):
                    op["i"] = i
                    op["while_broken"] = True
                    return op
            self.recovering = True
            idx = r.randrange(len(self.broken))
            op = dict(self.broken[idx][0])
            op["i"] = i
            op["broken_index"] = idx
            return op
        p_fault = max(0.25, self.cfg.get("fault_rate", 0.2))
        if r.random() < p_fault:
            cands = faults.failing_edits(self.sim, r)
            if cands:
                sites = sorted({c["expect_site"] for c in cands})
                site = r.choice(sites)               # uniform over crash sites first, then over triggering inputs
                op = r.choice([c for c in cands if c["expect_site"] == site])
                op["i"] = i
                return op
        mix = [(opgen.gen_numeric, 40), (opgen.gen_categorical, 8), (opgen.gen_hourly, 8), (opgen.gen_link, 10),
               (opgen.gen_list_assign, 8), (opgen.gen_list_op, 8), (opgen.gen_group, 5), (opgen.gen_add_job, 4)]
        return opgen.gen_edit(r, spec, self.cfg, i, mix=mix, focus=getattr(self, 'focus', None))

    def live_in_system(self, op):
        """While a failed link / list edit is installed the description still holds the previous links: an object it
        lists inside the system may be outside at the moment. An edit of such an object is accepted whatever its
        value and can make the re-assignment of the previous links fail for its own reasons, so it is not generated."""
        names_ = [ch["obj"] for ch in op["changes"]] if op["op"] == "group" else \
            [st["obj"] for st in op.get("steps", []) if "obj" in st] if op["op"] == "compound" else [op.get("obj")]
        try:
            return all(n in self.sim.world.objs and bool(self.sim.world.objs[n].systems) for n in names_ if n)
        except Exception:
            return False

    @staticmethod
    def revert_key(op):
        if op["op"] == "group":
            return tuple(sorted((ch["obj"], ch["attr"]) for ch in op["changes"]))
        return ((op.get("obj"), op.get("attr")),)

    def step(self, i, op):
        sim = self.sim
        if op.get("revert"):
            # (the failure this re-assignment answers is found by what it re-assigns, not by a recorded position: a
            # minimised history must not make it answer another failure)
            idx = next((n_ for n_, b in enumerate(self.broken) if self.revert_key(b[0]) == self.revert_key(op)), None)
            if idx is None:
                return "skip"
            status, ret = self.execute(op)
            if status == "ok":
                if idx < len(self.broken):
                    self.broken.pop(idx)
                self.attempts_without_progress = 0
                self.res.count("reverts_ok")
                if not self.broken:
                    self.recovering = False
                    self.extra_while_broken = 0
                    self.episodes += 1
                    self.res.count("recoveries_completed")
                    oracle = "not_restored_after_revert"
                    if getattr(self, "failed_revert_in_episode", False):
                        # a re-assignment of a previous value raised earlier in this episode (another failure was
                        # still installed) and was retried
                        oracle = "not_restored_after_retried_revert"
                    self.failed_revert_in_episode = False
                    self.compare_with_reference(i, op, "C15", oracle)
                return "ok"
            if status == "hang":
                raise Violation("C15", "hang", {op_kind(op)}, f"re-assigning the previous value does not return in {ret.site}",
                                i, op_kind(op))
            if status == "skip":
                self.broken.pop(idx) if idx < len(self.broken) else None
                return "skip"
            self.res.count("revert_raised_while_others_broken" if len(self.broken) > 1 else "revert_raised")
            earlier_revert_raised = getattr(self, "failed_revert_in_episode", False)
            self.failed_revert_in_episode = True
            self.attempts_without_progress = getattr(self, "attempts_without_progress", 0) + 1
            site = crash_site(ret) or type(ret).__name__
            if len(self.broken) == 1 or self.attempts_without_progress > 3 * len(self.broken) + 3:
                oracle = "unrecoverable"
                if earlier_revert_raised:
                    # an earlier re-assignment of this episode raised (another failure was still installed): its value is
                    # installed with stale dependents and cannot be assigned again (D17's mechanism); what those stale
                    # values make fail later is the same finding, not a new one
                    oracle = "unrecoverable_after_a_revert_that_raised"
                culprit = crash_object(ret)
                try:
                    if culprit is not None and not culprit.systems:
                        # the object that cannot be recomputed is, once the previous value is back, used by no system:
                        # it never was computable on its own (inputs nobody had computed yet), the failing edit
                        # linked it in, and un-linking it recomputes it once more
                        oracle = "unrecoverable_latent_failure_outside_system"
                except Exception:
                    pass
                raise Violation("C15", oracle, {site},
                                f"re-assigning the previous value of {self.revert_key(op)} raises "
                                f"{type(ret).__name__}: {str(ret)[:160]} (failed inputs still installed: "
                                f"{[self.revert_key(b[0]) for b in self.broken]})", i, op_kind(op))
            return "raised"
        revert = self.revert_op_for(op)
        status, ret = self.execute(op)
        if status == "skip":
            return "skip"
        if status == "hang":
            if op.get("fault"):
                raise Violation("C15", "hang", {op_kind(op)}, f"failing edit does not return in {ret.site}", i, op_kind(op))
            self.stop = "hang_in_plain_edit"
            return "hang"
        if status == "raised":
            site = crash_site(ret)
            if site is None:
                # refused by validation (nothing installed since the D4 repair) or crashed outside update functions
                self.res.count("raised_outside_update_functions:" + type(ret).__name__)
                if self.broken:
                    # a refusal while broken: nothing to revert for this op
                    return "refused"
                self.stop = "op_raised_outside_update"
                return "raised"
            self.res.count("fault:" + site)
            self.res.count("crash_exception:" + type(ret).__name__)
            if revert is not None:
                self.broken.append((revert, site))
            else:
                self.stop = "unrevertable_op_failed"
            return "failed"
        if op.get("fault"):
            self.res.count("fault_did_not_fire:" + op.get("expect_site", "?"))
            if self.broken:
                # an edit meant to fail was accepted because a failed link / list edit is installed (the job sits on
                # another storage, outside the system...): it is a valid edit of *that* model, and it can make the
                # previous links impossible to restore for its own reasons - nothing the statement promises can be
                # checked on this history any more
                self.res.count("inconclusive:edit_meant_to_fail_accepted_while_broken")
                self.stop = "inconclusive_edit_accepted_while_broken"
                self.broken = []
                return "ok"
        if not self.broken:
            self.compare_with_reference(i, op, "C15", "edit_after_recovery_deviates" if self.episodes else "edit_deviates")
        return "ok"

    def on_end(self):
        # a run must not end while broken: recover now (in failure order, then retries)
        sim = self.sim
        guard = 0
        while self.broken and guard < 4 * len(self.broken) + 4:
            guard += 1
            revert, site = self.broken[0]
            op = dict(revert)
            op["i"] = len(self.res.ops)
            op["broken_index"] = 0
            self.res.ops.append(op)
            st = self.step(op["i"], op)
            self.res.events.append((op["i"], op_kind(op), st))
            if st == "raised":
                self.broken.append(self.broken.pop(0))


MONITORS["C15"] = C15


# ---------------------------------------------------------------------------------------------------
# C05

class C05(FaultMonitorMixin, BaseMonitor):
    """A what-if simulation never disturbs the baseline model."""
    prop = "C05"

    def __init__(self, sim, k, cfg, res, opts):
        super().__init__(sim, k, cfg, res, opts)
        self.check_next_edit = False
        self.kept = []          # simulations created earlier in the run (all switched off), oldest first

    def next_op(self, i):
        r = self.k.rng("op", i)
        spec = self.sim.spec
        inside = set(S.closure(spec))
        if self.kept and r.random() < 0.15:
            # simulations created earlier (possibly before later edits of the baseline), toggled again, several at a
            # time: "switching the simulated values on and back off any number of times always returns to that baseline"
            seq, on = [], []
            for _ in range(r.randint(2, 6)):
                if on and r.random() < 0.45:
                    seq.append([on.pop(r.randrange(len(on))), "reset"])
                else:
                    x = r.randrange(4)
                    seq.append([x, "set"])
                    if x not in on:
                        on.append(x)
            return {"op": "toggle_kept", "seq": seq, "i": i}
        if r.random() < 0.5:
            extra, tag = None, None
            x = r.random()
            if x < 0.18:
                present = sorted({o["cls"] for n_, o in spec["objs"].items() if n_ in inside})
                entries = [e for e in faults.catalogue(spec, r.choice(present)) if e["strong"]]
                if r.random() < 0.4:
                    # values that pass parsing and are refused while being installed or by the allowed-value check
                    late = [e for cls_ in present for e in faults.catalogue(spec, cls_)
                            if e["fault"] in ("quantity_not_in_allowed_list", "not_in_allowed_list",
                                              "not_allowed_for_current_provider", "key_change_invalidating_dependent_value")]
                    entries = late or entries
                if entries:
                    e = r.choice(entries)
                    extra, tag = [{"obj": e["obj"], "attr": e["attr"], "value": e["value"]}], "F1:" + e["fault"]
            elif x < 0.45:
                # (devices=[] is left to C15: combined with a change that empties the journey it does not raise but
                # aliases "no value" objects, a degenerate configuration outside the envelope)
                cands = [c for c in faults.failing_edits(self.sim, r) if c["op"] == "set" and c["attr"] != "devices"]
                if cands:
                    c = r.choice(cands)
                    extra, tag = [{"obj": c["obj"], "attr": c["attr"], "value": c["value"]}], "F2:" + c["expect_site"]
            op = opgen.gen_simulate(r, spec, self.cfg, inside, i, extra_changes=extra)
            if op is not None:
                if tag:
                    op["fault"] = tag
                if tag and tag.startswith("F1") and len(op["changes"]) > 1 and r.random() < 0.5:
                    # refusals that happen while *installing* the changes are most interesting after valid ones
                    bad = [c for c in op["changes"] if c["obj"] == extra[0]["obj"] and c["attr"] == extra[0]["attr"]]
                    op["changes"] = [c for c in op["changes"] if c not in bad] + bad
                return op
        return opgen.gen_edit(r, spec, self.cfg, i, focus=getattr(self, 'focus', None))

    def snapshot_diff(self, before, i, op, oracle, what):
        after, pins = identity.snapshot(self.sim.world)
        d = identity.diff(before, after)
        self.res.count("identity_snapshots")
        if d:
            where = {f"{self.cls_of(k_[0])}.{k_[1]}" for k_, _ in d if k_[0] in self.sim.spec["objs"]}
            raise Violation("C05", oracle, where or {"?"}, f"{what}: " + "; ".join(
                f"{k_}: {why}" for k_, why in d[:5]) + (f" (+{len(d) - 5} more)" if len(d) > 5 else ""), i, op_kind(op))

    def step_toggle_kept(self, i, op):
        """Toggle simulations created earlier in the run, possibly several switched on at the same time."""
        if not self.kept:
            return "skip"
        base, pins = identity.snapshot(self.sim.world)
        on = []
        for n_, (x, t) in enumerate(op["seq"]):
            mu = self.kept[x % len(self.kept)]
            before, pins_ = (base, None) if not on else identity.snapshot(self.sim.world)
            try:
                with runner_watchdog():
                    if t == "set":
                        mu.set_updated_values()
                        if mu not in on:
                            on.append(mu)
                    else:
                        mu.reset_values()
                        if mu in on:
                            on.remove(mu)
                self.res.count("toggle_kept:" + t)
            except Exception as e:
                if t == "reset":
                    raise Violation("C05", "toggle_raised", {f"reset:{type(e).__name__}"},
                                    f"switching an earlier simulation off raised {type(e).__name__}: {str(e)[:160]}",
                                    i, op_kind(op))
                # switching on may be refused (the baseline has been edited since, or another simulation is on), but
                # then nothing may have changed
                self.res.count("fault:toggle_kept_refused:" + type(e).__name__)
                self.snapshot_diff(before, i, op, "refused_toggle_changed_model",
                                   f"switching simulation #{x % len(self.kept)} on raised {type(e).__name__} "
                                   f"({str(e)[:80]}) with {len(on)} other simulation(s) on")
            if not on:
                self.snapshot_diff(base, i, op, "baseline_changed_by_toggles",
                                   f"after toggles {op['seq'][:n_ + 1]} of earlier simulations (none switched on now)")
        for mu in reversed(on):
            try:
                mu.reset_values()
            except Exception as e:
                raise Violation("C05", "toggle_raised", {f"reset:{type(e).__name__}"},
                                f"switching an earlier simulation off raised {type(e).__name__}: {str(e)[:160]}", i,
                                op_kind(op))
        self.snapshot_diff(base, i, op, "baseline_changed_by_toggles",
                           f"after toggles {op['seq']} of earlier simulations and switching everything off")
        return "ok"

    def step(self, i, op):
        sim = self.sim
        if op["op"] == "toggle_kept":
            return self.step_toggle_kept(i, op)
        if op["op"] != "simulate":
            status, ret = self.execute(op)
            if status == "raised":
                self.res.count("ended_on_raise:" + type(ret).__name__)
                self.stop = "op_raised"
                return "raised"
            if status == "hang":
                self.stop = "hang_in_plain_edit"
                return "hang"
            if status == "ok" and self.check_next_edit:
                self.compare_with_reference(i, op, "C05", "edit_after_simulation_deviates")
                self.check_next_edit = False
            return status
        before, pins = identity.snapshot(sim.world)
        status, ret = self.execute(op)
        self.res.count("date:" + op.get("date_kind", "?"))
        if status == "skip":
            return "skip"
        if status == "hang":
            raise Violation("C05", "hang", {op_kind(op)}, f"simulation does not return in {ret.site}", i, op_kind(op))
        if status == "raised":
            site = crash_site(ret)
            self.res.count("fault:simulation_raised_in_" + (site or "validation:" + type(ret).__name__))
            self.snapshot_diff(before, i, op, "baseline_changed_by_failed_simulation",
                               f"simulation raised {type(ret).__name__} ({str(ret)[:100]})")
            self.check_next_edit = True
            return "raised"
        mu = ret
        self.res.count("simulations_created")
        self.res.count("simulated_values", len(getattr(mu, "values_to_recompute", [])))
        self.snapshot_diff(before, i, op, "baseline_changed_by_simulation", "after the simulation was created")
        on = False
        for n_, t in enumerate(op.get("toggles", [])):
            try:
                with runner_watchdog():
                    if t == "set":
                        mu.set_updated_values()
                        on = True
                    else:
                        mu.reset_values()
                        on = False
            except Exception as e:
                raise Violation("C05", "toggle_raised", {f"{t}:{type(e).__name__}"},
                                f"toggle #{n_} ({t}) raised {type(e).__name__}: {str(e)[:160]}", i, op_kind(op))
            self.res.count("toggle:" + t)
            kind = (op.get("reads") or [None] * (n_ + 1))[n_] if n_ < len(op.get("reads") or []) else None
            if kind:
                st_, rt_ = self.execute({"op": "read", "kind": kind, "targets": op["read_targets"][n_], "with_calc": True})
                self.res.count("fault:read_between_toggles" + ("" if st_ == "ok" else "_raised"))
            if not on:
                self.snapshot_diff(before, i, op, "baseline_changed_by_toggles",
                                   f"after toggles {op['toggles'][:n_ + 1]}" + (f" and a {kind} read" if kind else ""))
        if on:
            mu.reset_values()
            self.snapshot_diff(before, i, op, "baseline_changed_by_toggles", f"after toggles {op['toggles']} + reset")
        self.check_next_edit = True
        self.kept = (self.kept + [mu])[-4:]
        return "ok"


def runner_watchdog():
    from efsim.runner import watchdog
    return watchdog()


MONITORS["C05"] = C05


# ---------------------------------------------------------------------------------------------------
# C13

class C13(FaultMonitorMixin, BaseMonitor):
    """Saving a system to JSON and loading it back loses nothing."""
    prop = "C13"

    def __init__(self, sim, k, cfg, res, opts):
        super().__init__(sim, k, cfg, res, opts)
        self.restarted = False

    @staticmethod
    def spec_generator(k, cfg, index):
        if index % 2 == 0:
            cfg["builders"] = True
        return gen.gen_spec(k, cfg)

    def next_op(self, i):
        r = self.k.rng("op", i)
        if i > 0 and r.random() < 0.3:
            return {"op": "restart", "with_calc": r.random() < 0.5, "v9": r.random() < 0.3, "fault": "F3", "i": i}
        if i == self.opts.get("n_ops_hint", 10) - 1 and not self.restarted:
            return {"op": "restart", "with_calc": r.random() < 0.5, "v9": False, "fault": "F3", "i": i}
        return opgen.gen_edit(r, self.sim.spec, self.cfg, i, focus=getattr(self, 'focus', None))

    def step(self, i, op):
        sim = self.sim
        if op["op"] != "restart":
            status, ret = self.execute(op)
            if status == "raised":
                self.res.count("ended_on_raise:" + type(ret).__name__)
                self.stop = "op_raised"
                return "raised"
            if status == "hang":
                if self.restarted:
                    raise Violation("C13", "hang_after_reload", {ret.site}, f"edit on the reloaded system hangs in "
                                    f"{ret.site}", i, op_kind(op))
                self.stop = "hang_in_plain_edit"
                return "hang"
            if status == "ok" and self.restarted:
                # "the loaded system is live: edits on it behave exactly as on a freshly built one"
                self.compare_with_reference(i, op, "C13", "edit_on_reloaded_system_deviates")
            return status
        # ---- the restart fault
        spec = sim.spec
        inside = S.closure(spec)
        old_world = sim.world
        before_inputs = {}
        for n in inside:
            o = old_world.objs[n]
            for a, v in spec["objs"][n]["attrs"].items():
                if v is None or v[0] in ("ref", "refs", "str"):
                    continue
                val = getattr(o, a)
                src = getattr(val, "source", None)
                before_inputs[(n, a)] = (C.norm(val), val.label, (src.name, src.link) if src is not None else None)
        ids_before = {n: old_world.objs[n].id for n in inside}
        # attribution: the world being saved must itself agree with the reference
        try:
            ref = reference_world(sim)
        except Exception as e:
            self.res.count("left_envelope:" + type(e).__name__)
            self.stop = "left_envelope"
            return "skip"
        saved_ok = not C.diff_snapshots(C.calc_snapshot(old_world, inside), C.calc_snapshot(ref, inside), self.cls_of)
        if not saved_ok:
            self.res.count("inconclusive_engine_defect")
            self.stop = "inconclusive_engine_defect"
            return "skip"
        status, ret = self.execute(op)
        tag = ("calc" if op.get("with_calc") else "inputs") + ("+v9" if op.get("v9") else "")
        self.res.count("fault:restart_" + tag)
        if status == "hang":
            raise Violation("C13", "hang", {op_kind(op)}, f"save/load does not return in {ret.site}", i, op_kind(op))
        if status == "raised":
            raise Violation("C13", "reload_raised", {f"{type(ret).__name__}:{tag}"},
                            f"saving/loading ({tag}) raised {type(ret).__name__}: {str(ret)[:200]}", i, op_kind(op))
        saved, new_world = ret
        bad = []
        missing = [n for n in inside if n not in new_world.objs]
        if missing:
            raise Violation("C13", "objects_lost", {self.cls_of(n) for n in missing},
                            f"objects of the system missing after reload: {missing}", i, op_kind(op))
        for n in inside:
            o = new_world.objs[n]
            if type(o).__name__ != spec["objs"][n]["cls"]:
                bad.append(((n, "<class>"), f"{type(o).__name__} != {spec['objs'][n]['cls']}"))
            if o.id != ids_before[n]:
                bad.append(((n, "id"), f"{o.id} != {ids_before[n]}"))
            for a, v in spec["objs"][n]["attrs"].items():
                if v is None:
                    continue
                got = getattr(o, a, None)
                if v[0] == "ref":
                    if got is None or got.name != v[1]:
                        bad.append(((n, a), f"link {getattr(got, 'name', None)} != {v[1]}"))
                elif v[0] == "refs":
                    if got is None or [x.name for x in got] != list(v[1]):
                        bad.append(((n, a), f"list {[x.name for x in got] if got is not None else None} != {v[1]}"))
                elif v[0] == "str":
                    if got != v[1]:
                        bad.append(((n, a), f"{got!r} != {v[1]!r}"))
                else:
                    want_norm, want_label, want_src = before_inputs[(n, a)]
                    if got is None:
                        bad.append(((n, a), "input missing"))
                        continue
                    ok, why = C.phys_equal(C.norm(got), want_norm, atol=0.0)
                    if not ok:
                        bad.append(((n, a), f"input value: {why}"))
                    if got.label != want_label:
                        bad.append(((n, a), f"label {got.label!r} != {want_label!r}"))
                    src = getattr(got, "source", None)
                    if ((src.name, src.link) if src is not None else None) != want_src:
                        bad.append(((n, a), f"source {src} != {want_src}"))
        if bad:
            raise Violation("C13", "reloaded_inputs_or_links_differ", {f"{self.cls_of(k_[0])}.{k_[1]}" for k_, _ in bad},
                            self.fmt(bad), i, op_kind(op))
        # the reloaded world replaces the live one; objects that were not saved (unreachable) are forgotten
        for n in list(spec["order"]):
            if n not in new_world.objs:
                del spec["objs"][n]
                spec["order"].remove(n)
        sim.world = new_world
        self.restarted = True
        diffs = C.diff_snapshots(C.calc_snapshot(new_world, S.closure(spec)), C.calc_snapshot(ref, S.closure(spec)),
                                 self.cls_of)
        if diffs:
            raise Violation("C13", "reloaded_results_differ", self.where_of(diffs), self.fmt(diffs), i, op_kind(op))
        from efootprint.api_utils.system_to_json import system_to_json
        again = system_to_json(new_world.system, save_calculated_attributes=False)
        first = system_to_json(old_world.system, save_calculated_attributes=False)
        if again != first:
            keys = [k_ for k_ in set(again) | set(first) if again.get(k_) != first.get(k_)]
            raise Violation("C13", "re_export_differs", set(keys), f"re-exported JSON differs in sections {keys}", i,
                            op_kind(op))
        self.res.count("round_trips_checked")
        return "ok"


MONITORS["C13"] = C13


# ---------------------------------------------------------------------------------------------------
# C18

READ_KINDS = ["explain", "str", "to_json", "sums", "plot_system", "plot_diffs", "plot_values", "calculus_graph",
              "object_graph"]


class C18(FaultMonitorMixin, BaseMonitor):
    """A computed model is a fixed point, and computing / reading never alters inputs."""
    prop = "C18"

    @staticmethod
    def spec_generator(k, cfg, index):
        if index % 2 == 0:
            cfg["builders"] = True
        return gen.gen_spec(k, cfg)

    def next_op(self, i):
        """Phase 1: edits interleaved with read-side requests.  Phase 2 (the tail of the run): explicit
        recomputation requests and reads only - 'for all systems after any edit history, for every subset/order of
        explicit recomputation requests'.  (Edits *after* explicit requests are not generated: see DESIGN 3.C18.)"""
        r = self.k.rng("op", i)
        spec = self.sim.spec
        inside = S.closure(spec)
        n_ops = self.opts.get("n_ops_hint", 10)
        if not self.tail and (i >= n_ops - 1 - self.k.randint(2, max(2, n_ops // 2), "tail-length")):
            self.tail = True
        x = r.random()
        if self.tail and x < 0.65:
            mode = r.choice(["random", "random", "canonical", "reverse", "repeat", "system", "single", "rules", "rules"])
            objs = [n for n in inside if n != "sys"]
            if mode == "system" or not objs:
                targets = ["sys!"] * r.choice([1, 2])
            elif mode == "rules":
                # single update rules, in any order: "every update rule only reads values that are already up to date"
                pairs = [f"{n}.{a}" for n in objs for a in self.sim.world.objs[n].calculated_attributes]
                targets = [r.choice(pairs) for _ in range(r.randint(3, 12))] if pairs else ["sys!"]
            elif mode == "single":
                targets = [r.choice(objs)]
            else:
                sub = [n for n in objs if r.random() < 0.6] or objs[:1]
                if mode == "random":
                    r.shuffle(sub)
                elif mode == "reverse":
                    sub = list(reversed(sub))
                elif mode == "repeat":
                    sub = sub + [r.choice(sub) for _ in range(3)]
                    r.shuffle(sub)
                targets = sub
                if r.random() < 0.3:
                    targets = targets + ["sys"]
            return {"op": "recompute", "targets": targets, "mode": mode, "fault": "F5", "i": i}
        if self.tail or x < 0.3:
            kind = r.choice(READ_KINDS)
            objs = [n for n in inside]
            targets = [r.choice(objs) for _ in range(r.choice([1, 2, 4]))]
            return {"op": "read", "kind": kind, "targets": targets, "with_calc": r.random() < 0.7,
                    "cumsum": r.random() < 0.5, "fault": "F6", "i": i}
        if x < 0.38:
            # natural construction fault: a service that does not fit on a server of the computed system is refused;
            # what the refusal leaves behind is judged by the recomputation requests of the tail
            op = opgen.gen_install_service(r, spec, self.cfg, set(inside), i, refused=True)
            if op is not None:
                op["i"] = i
                return op
        return opgen.gen_edit(r, spec, self.cfg, i, focus=getattr(self, 'focus', None))

    def on_start(self):
        self.clean = True
        self.tail = False
        self.check_inputs_are_what_was_given(-1, {"op": "initial"})

    def check_inputs_are_what_was_given(self, i, op):
        """'Computing never changes the physical value of any input': after the build and after every accepted edit
        (each of which computes), every input still holds the physical value it was given (the description)."""
        sim = self.sim
        bad = []
        for n in S.closure(sim.spec):
            obj = sim.world.objs[n]
            o = sim.spec["objs"][n]
            for attr, v in o["attrs"].items():
                if v is None or v[0] not in ("q", "h", "s", "tz") or attr in obj.calculated_attributes:
                    continue
                given = C.norm(S.make_value(v, o.get("src", {}).get(attr)))
                ok, why = C.phys_equal(C.norm(getattr(obj, attr)), given)
                if not ok:
                    bad.append(((n, attr), "input no longer holds the value it was given: " + why))
        self.res.count("inputs_compared_with_description")
        if bad:
            raise Violation("C18", "input_changed_by_computation", self.where_of(bad), self.fmt(bad), i, op_kind(op))

    def snapshots(self):
        inside = S.closure(self.sim.spec)
        return (C.calc_snapshot(self.sim.world, inside), C.input_snapshot(self.sim.world, self.sim.spec, inside))

    def step(self, i, op):
        sim = self.sim
        if op["op"] not in ("recompute", "read"):
            status, ret = self.execute(op)
            if status == "raised":
                self.res.count("ended_on_raise:" + type(ret).__name__)
                self.stop = "op_raised"
                return "raised"
            if status == "hang":
                self.stop = "hang_in_plain_edit"
                return "hang"
            if status == "ok":
                self.check_inputs_are_what_was_given(i, op)
            return status
        # attribution: requests are judged only on a model that agrees with the rebuilt reference
        try:
            ref = reference_world(sim)
        except Exception as e:
            self.res.count("left_envelope:" + type(e).__name__)
            self.stop = "left_envelope"
            return "skip"
        inside = S.closure(sim.spec)
        if C.diff_snapshots(C.calc_snapshot(sim.world, inside), C.calc_snapshot(ref, inside), self.cls_of):
            # the model already deviates from the rebuilt reference (C01's finding); one thing remains C18's own,
            # literally: recomputing the whole system without changing any input must not change any value
            calc0, in0 = self.snapshots()
            status, ret = self.execute({"op": "recompute", "targets": ["sys!"]})
            if status == "ok":
                self.compare(i, dict(op, op="recompute"), calc0, in0,
                             "recomputation of the whole system on a model left stale by an edit")
            self.res.count("inconclusive_engine_defect")
            self.stop = "inconclusive_engine_defect"
            return "skip"
        calc0, in0 = self.snapshots()
        if op["op"] == "read":
            status, ret = self.execute(op)
            self.res.count("fault:read_" + op["kind"])
            if status == "skip":
                return "skip"
            if status == "hang":
                raise Violation("C18", "hang", {op_kind(op)}, f"{op['kind']} does not return in {ret.site}", i, op_kind(op))
            if status == "raised":
                # a read that raises is a robustness problem outside the statement; what it did before raising is judged
                self.res.count(f"read_raised:{op['kind']}:{type(ret).__name__}")
            self.compare(i, op, calc0, in0, f"read:{op['kind']}")
            return "ok" if status == "ok" else "raised"
        # recompute requests one by one, so that a change is pinned to the request that exposed it
        for n_, t in enumerate(op["targets"]):
            single = {"op": "recompute", "targets": [t]}
            status, ret = self.execute(single)
            self.res.count("fault:recompute_request")
            if status == "skip":
                continue
            if status == "hang":
                raise Violation("C18", "hang", {op_kind(op)}, f"recomputing {t} does not return in {ret.site}", i, op_kind(op))
            if "." in t:
                self.res.count("fault:single_rule_request")
            if status == "raised":
                self.res.count(f"recompute_raised:{type(ret).__name__}")
            self.compare(i, op, calc0, in0, f"recompute request #{n_} ({t})")
        return "ok"

    def compare(self, i, op, calc0, in0, what):
        calc1, in1 = self.snapshots()
        d_in = C.diff_snapshots(in0, in1, self.cls_of)
        if d_in:
            raise Violation("C18", "input_changed", self.where_of(d_in), f"after {what}: " + self.fmt(d_in), i, op_kind(op))
        d = C.diff_snapshots(calc0, calc1, self.cls_of)
        self.res.count("values_compared", len(calc1))
        if d:
            raise Violation("C18", "not_a_fixed_point" if op["op"] == "recompute" else "calculated_value_changed_by_read",
                            self.where_of(d), f"after {what}: " + self.fmt(d), i, op_kind(op))


MONITORS["C18"] = C18


# ---------------------------------------------------------------------------------------------------
# C19

ORDER_IRRELEVANT = {("System", "usage_patterns"), ("UsagePattern", "devices"), ("UsageJourneyStep", "jobs")}


def near_integer_instances(world, names_):
    """Objects whose raw number of instances has a non-zero value within 1e-7 of an integer: there a ceil() turns
    floating-point noise into a unit step (discontinuity guard, DESIGN 2.5)."""
    import numpy as np
    from efootprint.abstract_modeling_classes.explainable_objects import ExplainableHourlyQuantities
    out = []
    for n in names_:
        raw = getattr(world.objs[n], "raw_nb_of_instances", None)
        if isinstance(raw, ExplainableHourlyQuantities):
            v = np.asarray(raw.value["value"].values._data, dtype=float)
            v = v[np.abs(v) > 1e-12]
            if len(v) and np.any(np.abs(v - np.round(v)) < 1e-7 * np.maximum(1.0, np.abs(v))):
                out.append(n)
    return out


class C19(BaseMonitor):
    """Results are independent of creation order, identifiers and hashing."""
    prop = "C19"
    MIX = [(opgen.gen_numeric, 40), (opgen.gen_categorical, 8), (opgen.gen_provider_switch, 2), (opgen.gen_hourly, 8),
           (opgen.gen_link, 12), (opgen.gen_new_storage, 2), (opgen.gen_list_assign, 12), (opgen.gen_group, 8),
           (opgen.gen_remove_up, 3), (opgen.gen_permute_ups, 3), (opgen.gen_noop, 2)]

    @staticmethod
    def spec_generator(k, cfg, index):
        if index % 3 == 0:
            cfg["builders"] = True
        if index % 2 == 0:
            cfg["n_up"] = max(cfg["n_up"], 2)
            cfg["p_share_job"] = max(cfg["p_share_job"], 0.3)
        return gen.gen_spec(k, cfg)

    # -- the order-irrelevant permutation (variant 3) ---------------------------------------------
    def permuted(self, names_, cls, attr, key):
        if (cls, attr) in ORDER_IRRELEVANT and len(names_) > 1:
            return self.k.shuffled(names_, "perm", key, attr, len(names_))
        return list(names_)

    def permute_spec(self, spec):
        sp = S.clone(spec)
        for n, o in sp["objs"].items():
            for a, v in o["attrs"].items():
                if v is not None and v[0] == "refs":
                    o["attrs"][a] = ["refs", self.permuted(v[1], o["cls"], a, n)]
        return sp

    def permute_op(self, op, spec):
        op = copy.deepcopy(op)

        def fix(ch):
            v = ch.get("value")
            if v is not None and v[0] == "refs" and ch["obj"] in spec["objs"]:
                ch["value"] = ["refs", self.permuted(v[1], spec["objs"][ch["obj"]]["cls"], ch["attr"],
                                                     (ch["obj"], op.get("i")))]
        if op["op"] == "set":
            fix(op)
        elif op["op"] == "group":
            for ch in op["changes"]:
                fix(ch)
        elif op["op"] == "compound":
            op["steps"] = [self.permute_op(s_, spec) for s_ in op["steps"]]
        return op

    def on_start(self):
        base = self.res.header["spec"]
        salt = self.sim.salt
        self.variants = [("ids+creation-order as generated", self.sim, False)]
        label = None
        try:
            label = "other identifiers"
            v1 = Sim(base, salt + ":ids-B")
            self.variants.append((label, v1, False))
            label = "other creation order"
            v2 = Sim(base, salt, build=False)
            v2.world = S.build_world(v2.spec, salt, perm=self.k.sub("creation-order"))
            self.variants.append((label, v2, False))
            label = "other ids, creation order and order-irrelevant list orders"
            psp = self.permute_spec(base)
            v3 = Sim(psp, salt + ":ids-C", build=False)
            v3.world = S.build_world(v3.spec, salt + ":ids-C", perm=self.k.sub("creation-order-2"))
            self.variants.append((label, v3, True))
        except Exception as e:
            # the description was built under the ids / order as generated: whether it builds must not depend on them
            raise Violation("C19", "build_depends_on_ids_or_order", {type(e).__name__},
                            f"the model builds with ids and creation order as generated, but variant '{label}' raises "
                            f"{type(e).__name__}: {str(e)[:200]}", -1, "initial")
        self.compare_variants(-1, {"op": "initial"})

    def next_op(self, i):
        r = self.k.rng("op", i)
        if self.opts.get("with_simulations", True) and r.random() < 0.15:
            spec = self.sim.spec
            op = opgen.gen_simulate(r, spec, self.cfg, set(S.closure(spec)), i,
                                    date_kind=r.choice(["first", "interior", "interior", "last"]))
            if op is not None:
                op["toggles"] = []
                return op
        return opgen.gen_edit(r, self.sim.spec, self.cfg, i, mix=self.MIX, focus=getattr(self, 'focus', None))

    def step_simulation(self, i, op):
        """The what-if values are calculated quantities too: they must not depend on ids / orders either."""
        from efsim.runner import watchdog
        snaps, statuses = [], []
        vops = []
        for label, sim, perm in self.variants:
            vop = self.permute_op(op, sim.spec) if perm else op
            if perm:
                for ch, vch in zip(op["changes"], vop["changes"]):
                    if ch["value"][0] == "refs" and ch["obj"] in sim.spec["objs"]:
                        vch["value"] = ["refs", self.permuted(ch["value"][1], sim.spec["objs"][ch["obj"]]["cls"], ch["attr"],
                                                              (ch["obj"], op.get("i")))]
            vops.append(vop)
        # a list change that only re-orders an order-irrelevant list is a change in one variant and the very same
        # list (skipped by the library, and a simulation without any change raises) in another: not the same edit
        noop_patterns = set()
        for (label, sim, perm), vop in zip(self.variants, vops):
            noop_patterns.add(tuple(
                ch["value"][0] == "refs" and ch["obj"] in sim.spec["objs"]
                and list(ch["value"][1]) == list(sim.spec["objs"][ch["obj"]]["attrs"][ch["attr"]][1])
                for ch in vop["changes"]))
        if len(noop_patterns) > 1:
            self.res.count("skipped:reordering_is_a_noop_in_some_variant")
            return "skip"
        for (label, sim, perm), vop in zip(self.variants, vops):
            try:
                with watchdog():
                    mu = sim.apply(vop)
                    mu.set_updated_values()
                    names_ = [n for n in S.closure(sim.spec) if n in sim.world.objs]
                    snaps.append(C.calc_snapshot(sim.world, names_))
                    mu.reset_values()
                statuses.append("ok")
            except opgen_skip():
                statuses.append("skip")
                snaps.append(None)
            except Exception as e:
                statuses.append("raised:" + type(e).__name__)
                snaps.append(None)
                messages = getattr(self, "_sim_messages", [])
                messages.append(f"{type(e).__name__}: {str(e)[:90]}")
                self._sim_messages = messages
        self.res.count("fault:simulation")
        if len(set(s_.split(":")[0] for s_ in statuses)) > 1:
            msgs, self._sim_messages = getattr(self, "_sim_messages", []), []
            raise Violation("C19", "accept_raise_disagreement", {op_kind(op)},
                            "variants disagree on a simulation: " + ", ".join(
                                f"{lab}: {st}" for (lab, _, _), st in zip(self.variants, statuses))
                            + (" [" + "; ".join(sorted(set(msgs))) + "]" if msgs else ""), i, op_kind(op))
        self._sim_messages = []
        if statuses[0] != "ok":
            return statuses[0].split(":")[0]
        for (label, sim, perm), other in zip(self.variants[1:], snaps[1:]):
            diffs = C.diff_snapshots(snaps[0], other, self.cls_of)
            self.res.count("simulated_values_compared", len(snaps[0]))
            if diffs:
                if near_integer_instances(self.variants[0][1].world, S.closure(self.variants[0][1].spec)):
                    self.res.count("excused_boundary")
                    return "ok"
                if "simulated_values_differ" in self.opts.get("tolerated_oracles", []):
                    self.res.count("known:simulated_values_differ")
                    return "ok"
                raise Violation("C19", "simulated_values_differ", self.where_of(diffs),
                                f"what-if values, '{label}' vs '{self.variants[0][0]}': " + self.fmt(diffs), i, op_kind(op))
        return "ok"

    def step(self, i, op):
        if op["op"] == "simulate":
            return self.step_simulation(i, op)
        statuses = []
        msgs_ = []
        for label, sim, perm in self.variants:
            vop = self.permute_op(op, sim.spec) if perm else op
            self.sim_for_execute = sim
            try:
                from efsim.runner import watchdog, Hang
                try:
                    with watchdog():
                        sim.apply(vop)
                    statuses.append("ok")
                except opgen_skip():
                    statuses.append("skip")
                except Hang as h:
                    raise Violation("C19", "hang", {op_kind(op)}, f"variant '{label}' does not return in {h.site}", i, op_kind(op))
                except Violation:
                    raise
                except Exception as e:
                    statuses.append("raised:" + type(e).__name__)
                    msgs_.append(f"{type(e).__name__}: {str(e)[:90]}")
            finally:
                pass
        if len(set(s_.split(":")[0] for s_ in statuses)) > 1:
            raise Violation("C19", "accept_raise_disagreement", {op_kind(op)},
                            f"variants disagree on {op_kind(op)}: " + ", ".join(
                                f"{lab}: {st}" for (lab, _, _), st in zip(self.variants, statuses))
                            + (" [" + "; ".join(sorted(set(msgs_))) + "]" if msgs_ else ""), i, op_kind(op))
        if statuses[0].startswith("raised"):
            self.res.count("ended_on_raise:" + statuses[0].split(":")[1])
            self.stop = "op_raised"
            return "raised"
        if statuses[0] == "skip":
            return "skip"
        self.compare_variants(i, op)
        return "ok"

    def compare_variants(self, i, op):
        base_sim = self.variants[0][1]
        names_ = S.closure(base_sim.spec)
        base = C.calc_snapshot(base_sim.world, names_)
        for label, sim, perm in self.variants[1:]:
            other = C.calc_snapshot(sim.world, [n for n in names_ if n in sim.world.objs])
            diffs = C.diff_snapshots(base, other, self.cls_of)
            self.res.count("values_compared", len(base))
            if diffs:
                near = near_integer_instances(base_sim.world, names_) + near_integer_instances(sim.world, names_)
                if near:
                    self.res.count("excused_boundary")
                    self.stop = "excused_boundary"
                    return
                raise Violation("C19", "variants_differ", self.where_of(diffs), f"'{label}' vs '{self.variants[0][0]}': "
                                + self.fmt(diffs), i, op_kind(op))

    def on_end(self):
        # ship the final values of variant 0 so that the parent can compare processes run under other hash seeds
        base_sim = self.variants[0][1]
        names_ = S.closure(base_sim.spec)
        snap = C.calc_snapshot(base_sim.world, names_)
        out = {}
        for (n, a), v in snap.items():
            out[f"{n}.{a}"] = jsonable(v)
        self.res.extra["final_values"] = out
        self.res.extra["near_integer"] = near_integer_instances(base_sim.world, names_)


def opgen_skip():
    from efsim.sim import OpSkipped
    return OpSkipped


def jsonable(v):
    if v[0] == "h":
        return ["h", v[1], [int(x) for x in v[2]], [float(x) for x in v[3]], v[4]]
    if v[0] == "d":
        return ["d", {k_: jsonable(x) for k_, x in v[1].items()}]
    return list(v)


def from_jsonable(v):
    import numpy as np
    if v[0] == "h":
        return ("h", v[1], np.asarray(v[2], dtype=np.int64), np.asarray(v[3], dtype=float), v[4])
    if v[0] == "d":
        return ("d", {k_: from_jsonable(x) for k_, x in v[1].items()})
    return tuple(v)


MONITORS["C19"] = C19


# ---------------------------------------------------------------------------------------------------
# shared history generator for the monitor-style properties (C07, C08): every op and fault kind

def gen_mixed_op(mon, i, p_sim=0.12, p_restart=0.06, p_fail=0.08, p_bad=0.06, p_read=0.06, p_refused=0.04):
    r = mon.k.rng("op", i)
    sim = mon.sim
    spec = sim.spec
    inside = set(S.closure(spec))
    broken = getattr(mon, "broken_reverts", [])
    if broken:
        op = dict(broken[0])
        op["i"] = i
        return op
    x = r.random()
    if x < p_sim:
        op = opgen.gen_simulate(r, spec, mon.cfg, inside, i)
        if op is not None:
            return op
    x -= p_sim
    if 0 <= x < p_restart and i > 0:
        return {"op": "restart", "with_calc": r.random() < 0.5, "v9": r.random() < 0.3, "fault": "F3", "i": i}
    x -= p_restart
    if 0 <= x < p_fail:
        cands = [c for c in faults.failing_edits(sim, r) if c["op"] == "set" and c["attr"] != "devices"]
        if cands:
            op = r.choice(cands)
            op["i"] = i
            return op
    x -= p_fail
    if 0 <= x < p_bad:
        present = sorted({o["cls"] for n_, o in spec["objs"].items() if n_ in inside})
        entries = [e for e in faults.catalogue(spec, r.choice(present)) if e["strong"]]
        if entries:
            e = r.choice(entries)
            return {"op": "bad_set", "obj": e["obj"], "attr": e["attr"], "value": e["value"], "fault": e["fault"],
                    "strong": True, "i": i}
    x -= p_bad
    if 0 <= x < p_read:
        objs = sorted(inside)
        return {"op": "read", "kind": r.choice(READ_KINDS), "targets": [r.choice(objs) for _ in range(2)],
                "with_calc": True, "cumsum": False, "fault": "F6", "i": i}
    x -= p_read
    if 0 <= x < p_refused:
        # natural construction fault on the live model: a service that does not fit on one of its servers
        op = opgen.gen_install_service(r, spec, mon.cfg, inside, i, refused=True)
        if op is not None:
            op["i"] = i
            return op
    return opgen.gen_edit(r, spec, mon.cfg, i, focus=getattr(mon, 'focus', None))


def run_mixed_op(mon, i, op):
    """Execute one op of a mixed history; returns a status string.  Sets mon.stop when the run cannot go on."""
    sim = mon.sim
    kind = op["op"]
    if kind == "simulate":
        status, ret = mon.execute(op)
        if status == "ok":
            mu, on = ret, False
            for t in op.get("toggles", []):
                if t == "set":
                    mu.set_updated_values()
                    on = True
                    if hasattr(mon, "while_simulation_is_on"):
                        mon.while_simulation_is_on(i, op)
                else:
                    mu.reset_values()
                    on = False
            if on:
                mu.reset_values()
            mon.res.count("fault:simulation")
            return "ok"
        mon.res.count("fault:simulation_raised")
        return "raised" if status == "raised" else status
    if kind == "restart":
        status, ret = mon.execute(op)
        if status != "ok":
            mon.stop = "restart_failed"
            return status
        saved, new_world = ret
        for n in list(sim.spec["order"]):
            if n not in new_world.objs:
                del sim.spec["objs"][n]
                sim.spec["order"].remove(n)
        sim.world = new_world
        mon.res.count("fault:restart")
        return "ok"
    if kind in ("bad_set", "read"):
        status, ret = mon.execute(op)
        mon.res.count("fault:" + ("refused_edit" if kind == "bad_set" else "read"))
        if kind == "bad_set" and status == "ok":
            mon.stop = "invalid_value_accepted"
        return status
    revert = None
    if op.get("fault") == "F2" and kind == "set":
        revert = {"op": "set", "revert": True, "obj": op["obj"], "attr": op["attr"],
                  "value": copy.deepcopy(sim.spec["objs"][op["obj"]]["attrs"][op["attr"]]),
                  "src": sim.spec["objs"][op["obj"]].get("src", {}).get(op["attr"])}
    status, ret = mon.execute(op)
    if op.get("revert"):
        if status == "ok":
            mon.broken_reverts = []
            mon.res.count("fault:recovered")
            return "ok"
        mon.stop = "revert_failed"
        return status
    if status == "raised":
        if revert is not None and crash_site(ret):
            mon.broken_reverts = [revert]
            mon.res.count("fault:failed_recomputation")
            return "failed"
        mon.res.count("ended_on_raise:" + type(ret).__name__)
        mon.stop = "op_raised"
        return "raised"
    if status == "hang":
        mon.stop = "hang_in_plain_edit"
    return status


# ---------------------------------------------------------------------------------------------------
# C07

ARITH = {"+", "-", "*", "/", "max compared with", "min compared with"}


class C07(BaseMonitor):
    """Every computed value is reproduced by the formula it displays."""
    prop = "C07"

    @staticmethod
    def spec_generator(k, cfg, index):
        if index % 2 == 0:
            cfg["builders"] = True
        if index % 3 == 0:
            # jobs that delete data next to jobs that store some, few journeys (so that they cover the same hours):
            # the storage then compares needs and frees hour by hour
            cfg["deleting_jobs"] = True
            cfg["n_uj"] = 1
            cfg["n_up"] = min(cfg["n_up"], 2)
            cfg["offset_starts"] = False
        return gen.gen_spec(k, cfg)

    def on_start(self):
        self.broken_reverts = []
        self.walk_all(-1, {"op": "initial"})

    def next_op(self, i):
        # read-side traffic is a quarter of the history here: an explanation that was faithful when computed can be
        # falsified by a read that converts, rounds or otherwise mutates a recorded operand in place
        return gen_mixed_op(self, i, p_read=0.25)

    def step(self, i, op):
        status = run_mixed_op(self, i, op)
        if self.stop or status in ("skip",):
            return status
        if self.broken_reverts:
            return status          # explanation trees are judged on a model that is not mid-failure
        self.walk_all(i, op)
        return status

    # -- independent re-evaluation of a recorded binary operation ---------------------------------
    @staticmethod
    def reevaluate(op, left, right):
        """-> normalised expected value, or None when the combination is not one the statement covers."""
        import pandas as pd
        from efootprint.abstract_modeling_classes.explainable_objects import (
            EmptyExplainableObject, ExplainableQuantity, ExplainableHourlyQuantities)
        le, re_ = isinstance(left, EmptyExplainableObject), isinstance(right, EmptyExplainableObject)
        if le and re_:
            return ("e",)
        if le or re_:
            other = right if le else left
            if op in ("+",):
                return C.norm(other)
            if op == "-":
                return C.norm(other) if re_ else None
            if op == "*":
                return ("e",)
            if op == "/":
                return ("e",) if le else None
        lq, rq = isinstance(left, ExplainableQuantity), isinstance(right, ExplainableQuantity)
        lh, rh = isinstance(left, ExplainableHourlyQuantities), isinstance(right, ExplainableHourlyQuantities)
        if not ((lq or lh) and (rq or rh)):
            return None
        a, b = left.value, right.value
        if lq and rq:
            val = {"+": lambda: a + b, "-": lambda: a - b, "*": lambda: a * b, "/": lambda: a / b}[op]()
            return C.norm(ExplainableQuantity(val, "expected"))
        if lh and rh and op in ("max compared with", "min compared with"):
            # the other operation the explanations display between two hourly series: hour by hour, on physical values
            if not a.index.equals(b.index):
                return None
            import numpy as np
            x = np.asarray(a["value"].values._data, dtype=float) * C._factor(left.unit)[0]
            y = np.asarray(b["value"].values._data, dtype=float) * C._factor(right.unit)[0]
            if C._factor(left.unit)[1] != C._factor(right.unit)[1]:
                return None
            got = C.norm(left)
            return (got[0], got[1], got[2], (np.maximum if op.startswith("max") else np.minimum)(x, y), got[4])
        if lh and rh:
            if op == "+":
                val = a.add(b, fill_value=0 * left.unit)
            elif op == "*":
                val = a.mul(b, fill_value=0)
            elif op == "-":
                if not a.index.equals(b.index):
                    return None
                val = a - b
            else:
                return None
        else:
            if op == "*":
                val = (a * b) if lh else (b * a)
            elif op == "/":
                val = a / b
            else:
                return None
        if not isinstance(val, pd.DataFrame):
            return None
        return C.norm(ExplainableHourlyQuantities(val, "expected"))

    def walk_all(self, i, op):
        from efootprint.abstract_modeling_classes.explainable_objects import EmptyExplainableObject
        from efootprint.abstract_modeling_classes.source_objects import SourceValue, SourceObject, SourceHourlyValues
        SOURCE_TYPES = (SourceValue, SourceObject, SourceHourlyValues)
        sim = self.sim
        inside = S.closure(sim.spec)
        inside_set = set(inside)
        memo = set()
        bad = []
        n_nodes = n_arith = n_leaves = 0
        for n in inside:
            obj = sim.world.objs[n]
            calc = set(obj.calculated_attributes)
            for attr in obj.calculated_attributes:
                v = getattr(obj, attr, None)
                if v is None:
                    bad.append(((n, attr), "calculated attribute is None"))
                    continue
                entries = list(v.items()) if isinstance(v, dict) else [(None, v)]
                for key, e in entries:
                    where = (n, attr)
                    if not e.label:
                        bad.append((where, "attached value has no label"))
                    try:
                        e.explain()
                        e.explain(pretty_print=False)
                    except Exception as ex:
                        bad.append((where, f"explain() raises {type(ex).__name__}: {str(ex)[:100]}"))
                    stack = [e]
                    while stack:
                        node = stack.pop()
                        if id(node) in memo:
                            continue
                        memo.add(id(node))
                        n_nodes += 1
                        lp, rp, oper = node.left_parent, node.right_parent, node.operator
                        if lp is None and rp is None:
                            n_leaves += 1
                            if isinstance(node, EmptyExplainableObject):
                                if not node.label:
                                    bad.append((where, "empty leaf without label"))
                                continue
                            if not node.label:
                                bad.append((where, f"leaf {str(node)[:40]} has no label"))
                            elif getattr(node, "source", None) is None:
                                bad.append((where, f"leaf '{node.label}' has no source"))
                            cont = node.modeling_obj_container
                            # a value computed from others must record them: a calculated attribute may only be a leaf
                            # when its update function deliberately installs a sourced constant (Source* object), and
                            # objects outside the system (never computed) are not judged
                            if (cont is not None and node.attr_name_in_mod_obj_container in cont.calculated_attributes
                                    and cont.name in inside_set and not isinstance(node, SOURCE_TYPES)):
                                bad.append((where, f"leaf '{node.label}' is a calculated attribute "
                                                   f"({type(cont).__name__}.{node.attr_name_in_mod_obj_container}), not an input"))
                            continue
                        if oper in ARITH and lp is not None and rp is not None:
                            try:
                                want = self.reevaluate(oper, lp, rp)
                            except Exception as ex:
                                want = None
                                bad.append((where, f"re-evaluating '{(lp.label or '?')[:30]} {oper} {(rp.label or '?')[:30]}' "
                                                   f"raises {type(ex).__name__}: {str(ex)[:80]}"))
                            if want is not None:
                                n_arith += 1
                                ok, why = C.phys_equal(C.norm(node), want)
                                if not ok:
                                    bad.append((where, f"node '{(node.label or '(intermediate)')[:50]}' = "
                                                       f"'{(lp.label or '?')[:30]}' {oper} '{(rp.label or '?')[:30]}' "
                                                       f"is not reproduced: {why}"))
                        if lp is not None:
                            stack.append(lp)
                        if rp is not None:
                            stack.append(rp)
        self.res.count("nodes_walked", n_nodes)
        self.res.count("arithmetic_nodes_reevaluated", n_arith)
        self.res.count("leaves_checked", n_leaves)
        if bad:
            # group by kind of problem so that known findings (inline constants) stay separable
            leaf_no_source = [b for b in bad if "has no source" in b[1]]
            others = [b for b in bad if "has no source" not in b[1]]
            if others:
                raise Violation("C07", "explanation_not_faithful", self.where_of(others), self.fmt(others), i, op_kind(op))
            tolerated = set(self.opts.get("tolerated_leaf_labels", []))
            labels = sorted({b[1].split("'")[1] for b in leaf_no_source})
            unknown = [lab for lab in labels if lab not in tolerated]
            self.res.count("known_leaf_without_source", len(leaf_no_source) if not unknown else 0)
            if unknown:
                raise Violation("C07", "leaf_without_source", set(labels), self.fmt(leaf_no_source), i, op_kind(op))


MONITORS["C07"] = C07


# ---------------------------------------------------------------------------------------------------
# C08

def current_values(world, names_):
    """Every value currently held by the named objects (inputs, calculated values, dict entries)."""
    from efootprint.abstract_modeling_classes.explainable_object_base_class import ExplainableObject
    out = []
    for n in names_:
        obj = world.objs[n]
        for attr, v in obj.__dict__.items():
            if attr in identity.BOOKKEEPING or attr.startswith("initial_total"):
                continue
            if isinstance(v, dict):
                for e in v.values():
                    if isinstance(e, ExplainableObject) and e.modeling_obj_container is obj:
                        out.append((n, attr, e))
            elif isinstance(v, ExplainableObject):
                out.append((n, attr, v))
    return out


class C08(BaseMonitor):
    """The calculation graph is consistent and complete."""
    prop = "C08"

    @staticmethod
    def spec_generator(k, cfg, index):
        if index % 2 == 0:
            cfg["builders"] = True
        return gen.gen_spec(k, cfg)

    def on_start(self):
        self.broken_reverts = []
        self.check_graph(-1, {"op": "initial"})
        self.completeness_sweep(-1, {"op": "initial"}, self.opts.get("sweep_inputs_start", 6))

    def on_end(self):
        if not self.stop and not self.broken_reverts:
            self.completeness_sweep(len(self.res.ops), {"op": "final-sweep"}, self.opts.get("sweep_inputs_end", 12))

    def completeness_sweep(self, i, op, how_many):
        """Completeness 'for every (input, calculated attribute) pair of the system', without waiting for an edit:
        a keyed sample of the inputs is perturbed one at a time in the *description*; every calculated attribute
        that differs between the two systems rebuilt from scratch must be a descendant of that input in the live
        graph."""
        sim = self.sim
        spec = sim.spec
        inside = S.closure(spec)
        cands = []
        for n in inside:
            for a, v in spec["objs"][n]["attrs"].items():
                if v is not None and v[0] in ("q", "h", "tz") and a != "fixed_nb_of_instances":
                    cands.append((n, a))
        if not cands:
            return
        chosen = self.k.shuffled(cands, "sweep", i)[:how_many]
        try:
            base = S.build_world(spec, sim.salt)
        except Exception:
            self.res.count("left_envelope")
            return
        base_snap = C.calc_snapshot(base, inside)
        for (n, a) in chosen:
            v = spec["objs"][n]["attrs"][a]
            sp = S.clone(spec)
            r = self.k.rng("sweep-value", i, n, a)
            if v[0] == "q":
                # mostly moderate factors, sometimes a jump large enough to cross an hour / instance boundary
                f = r.choice([0.5, 0.25, 2.0, 3.0, 0.5, 2.0, 60.0, 1 / 60.0])
                new = ["q", (v[1] * f) if v[1] != 0 else 1.0, v[2]]
                if a == "server_utilization_rate":
                    new[1] = min(max(new[1], 0.3), 1.0)
                if new[1] == v[1]:
                    continue
            elif v[0] == "tz":
                new = ["tz", r.choice([z for z in gen.ZONES if z != v[1]])]
            else:
                new = ["h", v[1], [x * 1.5 + 1.0 for x in v[2]], v[3]]
            sp["objs"][n]["attrs"][a] = new
            try:
                other = S.build_world(sp, sim.salt)
            except Exception:
                self.res.count("sweep_perturbation_refused")
                continue
            changed = C.diff_snapshots(base_snap, C.calc_snapshot(other, inside), self.cls_of)
            self.res.count("sweep_inputs_perturbed")
            if not changed:
                continue
            x = getattr(sim.world.objs[n], a)
            try:
                desc = {d.id for d in x.all_descendants_with_id}
            except Exception as e:
                raise Violation("C08", "graph_walk_raises", {type(e).__name__}, f"descendants of {n}.{a}: {e}", i, op_kind(op))
            missing = []
            for (m, attr), why in changed:
                vid = f"{attr}-in-{sim.world.objs[m].id}"
                if vid not in desc:
                    missing.append(((m, attr), f"changes when {n}.{a} changes ({why[:50]}) but is not among its descendants"))
                elif x.id not in self.transitive_ancestor_ids(m, attr):
                    # the same dependency read from the other end (what `explain` and the exported graph walk)
                    missing.append(((m, attr), f"changes when {n}.{a} changes ({why[:50]}) and is among its descendants, "
                                               f"but {n}.{a} is not among its transitive ancestors"))
            self.res.count("completeness_pairs_checked", len(changed))
            if missing:
                raise Violation("C08", "incomplete_graph", self.where_of(missing), self.fmt(missing), i, op_kind(op))

    def next_op(self, i):
        return gen_mixed_op(self, i)

    def step(self, i, op):
        sim = self.sim
        plain_input_edit = (op["op"] == "set" and op["value"][0] in ("q", "s", "tz", "h", "e") and not op.get("fault")
                            and not op.get("revert") and not self.broken_reverts and op["obj"] in sim.spec["objs"]
                            and op["obj"] in S.closure(sim.spec))
        pre = None
        if plain_input_edit:
            pre = self.before_edit(op)
        status = run_mixed_op(self, i, op)
        if self.stop or status == "skip":
            return status
        if self.broken_reverts:
            return status
        if pre is not None and status == "ok":
            self.check_completeness(i, op, pre)
        self.check_graph(i, op)
        return status

    # -- completeness and update order ------------------------------------------------------------
    def before_edit(self, op):
        sim = self.sim
        x = getattr(sim.world.objs[op["obj"]], op["attr"])
        try:
            desc = x.all_descendants_with_id
            chain = x.attr_updates_chain
        except Exception as e:
            return {"error": e}
        pre = {"desc_ids": [d.id for d in desc], "chain_ids": [c.id for c in chain], "spec": S.clone(sim.spec)}
        # ancestors (id level, union over the values sharing an id) of every chain element, for the order check
        anc = {}
        for c in chain:
            members = list(c.values()) if isinstance(c, dict) else [c]
            ids = set()
            for m in members:
                ids |= {a.id for a in m.direct_ancestors_with_id if a.modeling_obj_container is not None}
            anc[c.id] = ids
        pre["anc"] = anc
        return pre

    def transitive_ancestor_ids(self, name, attr):
        """ids reached by walking up from the live value of name.attr (all entries, for a dict-valued attribute)."""
        v = getattr(self.sim.world.objs[name], attr, None)
        out = set()
        for e in (v.values() if isinstance(v, dict) else [v]):
            if hasattr(e, "all_ancestors_with_id"):
                out |= {a.id for a in e.all_ancestors_with_id}
        return out

    def check_completeness(self, i, op, pre):
        sim = self.sim
        if "error" in pre:
            e = pre["error"]
            raise Violation("C08", "graph_walk_raises", {type(e).__name__},
                            f"deriving descendants / update order of {op['obj']}.{op['attr']} raises "
                            f"{type(e).__name__}: {str(e)[:160]}", i, op_kind(op))
        before_spec, after_spec = pre["spec"], sim.spec
        if before_spec["objs"][op["obj"]]["attrs"].get(op["attr"]) == after_spec["objs"][op["obj"]]["attrs"].get(op["attr"]):
            return
        try:
            w0 = S.build_world(before_spec, sim.salt)
            w1 = S.build_world(after_spec, sim.salt)
        except Exception:
            self.res.count("left_envelope")
            return
        names_ = S.closure(after_spec)
        changed = C.diff_snapshots(C.calc_snapshot(w0, names_), C.calc_snapshot(w1, names_), self.cls_of)
        desc = set(pre["desc_ids"])
        missing = []
        input_id = f"{op['attr']}-in-{sim.world.objs[op['obj']].id}"
        for (n, attr), why in changed:
            vid = f"{attr}-in-{sim.world.objs[n].id}"
            if vid not in desc:
                missing.append(((n, attr), f"changes when {op['obj']}.{op['attr']} changes ({why[:60]}) but is not among "
                                           f"its descendants"))
            elif input_id not in self.transitive_ancestor_ids(n, attr):
                missing.append(((n, attr), f"changes when {op['obj']}.{op['attr']} changes ({why[:60]}) and is among its "
                                           f"descendants, but that input is not among its transitive ancestors"))
        self.res.count("completeness_pairs_checked", len(changed))
        if missing:
            raise Violation("C08", "incomplete_graph", self.where_of(missing), self.fmt(missing), i, op_kind(op))
        chain = pre["chain_ids"]
        if len(set(chain)) != len(chain):
            dup = sorted({c for c in chain if chain.count(c) > 1})
            raise Violation("C08", "update_order_repeats", {d.split("-in-")[0] for d in dup},
                            f"update order of {op['obj']}.{op['attr']} lists {dup[:3]} more than once", i, op_kind(op))
        if set(chain) != desc:
            only_d, only_c = sorted(desc - set(chain)), sorted(set(chain) - desc)
            raise Violation("C08", "update_order_incomplete", {d.split("-in-")[0] for d in only_d + only_c},
                            f"update order of {op['obj']}.{op['attr']} misses descendants {only_d[:3]} / lists "
                            f"non-descendants {only_c[:3]}", i, op_kind(op))
        pos = {c: p for p, c in enumerate(chain)}
        for c in chain:
            for a in pre["anc"].get(c, ()):
                if a in pos and pos[a] > pos[c]:
                    raise Violation("C08", "update_order_wrong", {c.split("-in-")[0]},
                                    f"update order of {op['obj']}.{op['attr']}: {c} comes before its ancestor {a}", i,
                                    op_kind(op))
        self.res.count("update_orders_checked")

    # -- consistency ------------------------------------------------------------------------------
    def while_simulation_is_on(self, i, op):
        """'... after any history of edits, simulations and toggles': also with the simulated values switched on."""
        oracle = "inconsistent_graph_while_simulation_is_on"
        try:
            self.check_graph(i, op, oracle=oracle)
            self.res.count("graph_checked_while_simulation_is_on")
        except Violation:
            if oracle in self.opts.get("tolerated_oracles", []):
                self.res.count("known:" + oracle)
                return
            raise

    def check_graph(self, i, op, oracle="inconsistent_graph"):
        sim = self.sim
        names_ = S.closure(sim.spec)
        vals = current_values(sim.world, names_)
        bad = []
        anc_of, ch_of = {}, {}          # id-level union over the values sharing an id
        for n, attr, v in vals:
            anc_of.setdefault(v.id, set())
            ch_of.setdefault(v.id, set())
        for n, attr, v in vals:
            for a in v.direct_ancestors_with_id:
                if not identity.is_current(a):
                    bad.append(((n, attr), f"lists an ancestor that the model no longer holds ('{(a.label or '?')[:40]}')"))
                else:
                    anc_of[v.id].add(a.id)
            for c in v.direct_children_with_id:
                if not identity.is_current(c):
                    bad.append(((n, attr), f"lists a child that the model no longer holds ('{(c.label or '?')[:40]}')"))
                else:
                    ch_of[v.id].add(c.id)
        names_set = set(names_)
        id_owner = {v.id: (n, attr) for n, attr, v in vals}
        for vid, ancs in anc_of.items():
            for a in ancs:
                if a in ch_of and vid not in ch_of[a]:
                    bad.append((id_owner[vid], f"lists {a} as ancestor but is not listed among its children"))
        for vid, chs in ch_of.items():
            for c in chs:
                if c in anc_of and vid not in anc_of[c]:
                    bad.append((id_owner[vid], f"lists {c} as child but is not listed among its ancestors"))
        # cycle detection on the id-level graph
        state = {}
        for root in ch_of:
            if root in state:
                continue
            stack = [(root, iter(sorted(ch_of.get(root, ()))))]
            state[root] = 1
            while stack:
                node, it = stack[-1]
                nxt = next(it, None)
                if nxt is None:
                    state[node] = 2
                    stack.pop()
                    continue
                if nxt not in ch_of:
                    continue
                if state.get(nxt) == 1:
                    bad.append((id_owner.get(nxt, ("?", "?")), f"cycle through {nxt}"))
                    state[nxt] = 2
                elif nxt not in state:
                    state[nxt] = 1
                    stack.append((nxt, iter(sorted(ch_of.get(nxt, ())))))
        # export
        try:
            for n in names_:
                obj = sim.world.objs[n]
                js = obj.to_json(True)
                for attr, v in js.items():
                    entries = []
                    if isinstance(v, dict) and "direct_ancestors_with_id" in v:
                        live = obj.__dict__.get(attr)
                        entries.append((v, live))
                    elif isinstance(v, dict) and v and all(isinstance(x, dict) and "direct_ancestors_with_id" in x
                                                           for x in v.values()):
                        live_d = obj.__dict__.get(attr)
                        by_id = {(k_ if isinstance(k_, str) else k_.id): e for k_, e in live_d.items()}
                        for key, x in v.items():
                            entries.append((x, by_id.get(key)))
                    for exported, live in entries:
                        if live is None:
                            bad.append(((n, attr), "exported value has no live counterpart"))
                            continue
                        if sorted(exported["direct_ancestors_with_id"]) != sorted(
                                a.id for a in live.direct_ancestors_with_id if a.modeling_obj_container is not None) or \
                                sorted(exported["direct_children_with_id"]) != sorted(
                                    c.id for c in live.direct_children_with_id if c.modeling_obj_container is not None):
                            bad.append(((n, attr), "exported edges differ from the live ones"))
        except Exception as e:
            bad.append((("sys", "to_json"), f"exporting the graph raises {type(e).__name__}: {str(e)[:120]}"))
        self.res.count("graph_nodes_checked", len(vals))
        if bad:
            raise Violation("C08", oracle, self.where_of(bad), self.fmt(sorted(set(bad))), i, op_kind(op))


MONITORS["C08"] = C08
