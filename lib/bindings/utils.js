function neighbourhoodHighlight(params) {
  // console.log("in nieghbourhoodhighlight");
  allNodes = nodes.get({ returnType: "Object" });
  // originalNodes = JSON.parse(JSON.stringify(allNodes));
  // if something is selected:
  if (params.nodes.length > 0) {
    highlightActive = true;
    var i, j;
    var selectedNode = params.nodes[0];
    var degrees = 2;

    // mark all nodes as hard to read.
    for (let nodeId in allNodes) {
      // nodeColors[nodeId] = allNodes[nodeId].color;
      allNodes[nodeId].color = "rgba(200,200,200,0.5)";
      if (allNodes[nodeId].hiddenLabel === undefined) {
        allNodes[nodeId].hiddenLabel = allNodes[nodeId].label;
        allNodes[nodeId].label = undefined;
      }
    }
    var connectedNodes = network.getConnectedNodes(selectedNode);
    var allConnectedNodes = [];

    // get the second degree nodes
    for (i = 1; i < degrees; i++) {
      for (j = 0; j < connectedNodes.length; j++) {
        allConnectedNodes = allConnectedNodes.concat(
          network.getConnectedNodes(connectedNodes[j])
        );
      }
    }

    // all second degree nodes get a different color and their label back
    for (i = 0; i < allConnectedNodes.length; i++) {
      // allNodes[allConnectedNodes[i]].color = "pink";
      allNodes[allConnectedNodes[i]].color = "rgba(150,150,150,0.75)";
      if (allNodes[allConnectedNodes[i]].hiddenLabel !== undefined) {
        allNodes[allConnectedNodes[i]].label =
          allNodes[allConnectedNodes[i]].hiddenLabel;
        allNodes[allConnectedNodes[i]].hiddenLabel = undefined;
      }
    }

    // all first degree nodes get their own color and their label back
    for (i = 0; i < connectedNodes.length; i++) {
      // allNodes[connectedNodes[i]].color = undefined;
      allNodes[connectedNodes[i]].color = nodeColors[connectedNodes[i]];
      if (allNodes[connectedNodes[i]].hiddenLabel !== undefined) {
        allNodes[connectedNodes[i]].label =
          allNodes[connectedNodes[i]].hiddenLabel;
        allNodes[connectedNodes[i]].hiddenLabel = undefined;
      }
    }

    // the main node gets its own color and its label back.
    // allNodes[selectedNode].color = undefined;
    allNodes[selectedNode].color = nodeColors[selectedNode];
    if (allNodes[selectedNode].hiddenLabel !== undefined) {
      allNodes[selectedNode].label = allNodes[selectedNode].hiddenLabel;
      allNodes[selectedNode].hiddenLabel = undefined;
    }
  } else if (highlightActive === true) {
    // console.log("highlightActive was true");
    // reset all nodes
    for (let nodeId in allNodes) {
      // allNodes[nodeId].color = "purple";
      allNodes[nodeId].color = nodeColors[nodeId];
      // delete allNodes[nodeId].color;
      if (allNodes[nodeId].hiddenLabel !== undefined) {
        allNodes[nodeId].label = allNodes[nodeId].hiddenLabel;
        allNodes[nodeId].hiddenLabel = undefined;
      }
    }
    highlightActive = false;
  }

  // transform the object into an array
  var updateArray = [];
  if (params.nodes.length > 0) {
    for (let nodeId in allNodes) {
      if (allNodes.hasOwnProperty(nodeId)) {
        // console.log(allNodes[nodeId]);
        updateArray.push(allNodes[nodeId]);
      }
    }
    nodes.update(updateArray);
  } else {
    // console.log("Nothing was selected");
    for (let nodeId in allNodes) {
      if (allNodes.hasOwnProperty(nodeId)) {
        // console.log(allNodes[nodeId]);
        // allNodes[nodeId].color = {};
        updateArray.push(allNodes[nodeId]);
      }
    }
    nodes.update(updateArray);
  }
}

function filterHighlight(params) {
  allNodes = nodes.get({ returnType: "Object" });
  // if something is selected:
  if (params.nodes.length > 0) {
    filterActive = true;
    let selectedNodes = params.nodes;

    // hiding all nodes and saving the label
    for (let nodeId in allNodes) {
      allNodes[nodeId].hidden = true;
      if (allNodes[nodeId].savedLabel === undefined) {
        allNodes[nodeId].savedLabel = allNodes[nodeId].label;
        allNodes[nodeId].label = undefined;
      }
    }

    for (let i=0; i < selectedNodes.length; i++) {
      allNodes[selectedNodes[i]].hidden = false;
      if (allNodes[selectedNodes[i]].savedLabel !== undefined) {
        allNodes[selectedNodes[i]].label = allNodes[selectedNodes[i]].savedLabel;
        allNodes[selectedNodes[i]].savedLabel = undefined;
      }
    }

  } else if (filterActive === true) {
    // reset all nodes
    for (let nodeId in allNodes) {
      allNodes[nodeId].hidden = false;
      if (allNodes[nodeId].savedLabel !== undefined) {
        allNodes[nodeId].label = allNodes[nodeId].savedLabel;
        allNodes[nodeId].savedLabel = undefined;
      }
    }
    filterActive = false;
  }

  // transform the object into an array
  var updateArray = [];
  if (params.nodes.length > 0) {
    for (let nodeId in allNodes) {
      if (allNodes.hasOwnProperty(nodeId)) {
        updateArray.push(allNodes[nodeId]);
      }
    }
    nodes.update(updateArray);
  } else {
    for (let nodeId in allNodes) {
      if (allNodes.hasOwnProperty(nodeId)) {
        updateArray.push(allNodes[nodeId]);
      }
    }
    nodes.update(updateArray);
  }
}

function selectNode(nodes) {
  network.selectNodes(nodes);
  neighbourhoodHighlight({ nodes: nodes });
  return nodes;
}

function selectNodes(nodes) {
  network.selectNodes(nodes);
  filterHighlight({nodes: nodes});
  return nodes;
}

function highlightFilter(filter) {
  let selectedNodes = []
  let selectedProp = filter['property']
  if (filter['item'] === 'node') {
    let allNodes = nodes.get({ returnType: "Object" });
    for (let nodeId in allNodes) {
      if (allNodes[nodeId][selectedProp] && filter['value'].includes((allNodes[nodeId][selectedProp]).toString())) {
        selectedNodes.push(nodeId)
      }
    }
  }
  else if (filter['item'] === 'edge'){
    let allEdges = edges.get({returnType: 'object'});
    // check if the selected property exists for selected edge and select the nodes connected to the edge
    for (let edge in allEdges) {
      if (allEdges[edge][selectedProp] && filter['value'].includes((allEdges[edge][selectedProp]).toString())) {
        selectedNodes.push(allEdges[edge]['from'])
        selectedNodes.push(allEdges[edge]['to'])
      }
    }
  }
  selectNodes(selectedNodes)
}