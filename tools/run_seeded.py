#!/venv/bin/python
"""Run the checks against every seeded change kept under /verif/seeded/<id>/ and regenerate seeded/README.md.

For each change: a scratch worktree of /repo HEAD is created outside /repo and /verif, the patch is applied there,
the demonstration is run (must fail with the change), then the quick check of the target property (and, with --all,
of every claimed property) is run with EFSIM_REPO pointing at the worktree; the worktree is removed afterwards.
Nothing is ever applied to /repo itself; the committed evidence files are restored after each run.

usage: tools/run_seeded.py [--all] [--tier quick|thorough] [id ...]
"""
import json
import os
import subprocess
import sys
import time

ROOT = os.path.dirname(os.path.dirname(os.path.abspath(__file__)))
PROPS = ["C01", "C05", "C07", "C08", "C13", "C14", "C15", "C16", "C18", "C19"]


def sh(cmd, **kw):
    return subprocess.run(cmd, shell=True, capture_output=True, text=True, **kw)


def main():
    args = [a for a in sys.argv[1:] if not a.startswith("--")]
    run_all = "--all" in sys.argv
    tier = "thorough" if "--tier=thorough" in sys.argv else "quick"
    ids = args or sorted(d for d in os.listdir(f"{ROOT}/seeded") if os.path.isdir(f"{ROOT}/seeded/{d}"))
    rows = []
    for sid in ids:
        d = f"{ROOT}/seeded/{sid}"
        meta = json.load(open(f"{d}/meta.json"))
        wt = f"/tmp/efsim_seed_{sid}_{os.getpid()}"
        sh(f"git -C /repo worktree add -q {wt} HEAD")
        try:
            ap = sh(f"git -C {wt} apply {d}/patch.diff")
            if ap.returncode != 0:
                rows.append((sid, meta, "patch does not apply: " + ap.stderr[:100].replace("\n", " "), {}))
                continue
            sh(f"cp {d}/demo.py {wt}/demo_seed.py")
            demo = sh(f"cd {wt} && PYTHONPATH={wt} timeout 600 /venv/bin/python {wt}/demo_seed.py", env=dict(os.environ, PYTHONPATH=wt))
            demo_res = f"exit {demo.returncode}"
            caught = {}
            targets = PROPS if run_all else [meta["property"]]
            for prop in targets:
                t0 = time.time()
                sh(f"rm -rf {ROOT}/replays")
                extra = meta.get("check_args", {}).get(prop, "")
                r = sh(f"cd {ROOT} && EFSIM_REPO={wt} timeout 3600 /venv/bin/python -m efsim.cli check --property {prop} "
                       f"--tier {tier} {extra}", env=dict(os.environ, EFSIM_REPO=wt))
                lines = [ln for ln in r.stdout.splitlines() if ln.startswith("VIOLATION")]
                detail = [ln.strip() for ln in r.stdout.splitlines() if ln.startswith("  oracle=")]
                caught[prop] = {"rc": r.returncode, "violations": len(lines), "first": (detail[0][:200] if detail else ""),
                                "wall_s": round(time.time() - t0)}
                sh(f"git -C {ROOT} checkout -- evidence/{prop}.json")
                print(sid, prop, caught[prop], flush=True)
            rows.append((sid, meta, demo_res, caught))
        finally:
            sh(f"git -C /repo worktree remove --force {wt}")
            sh(f"rm -rf {ROOT}/replays")
    if args:
        return
    with open(f"{ROOT}/seeded/README.md", "w") as f:
        f.write("# Seeded changes and the checks that catch them\n\n"
                "Each directory holds `patch.diff` (applies to /repo HEAD), `demo.py` (fails with the change, passes "
                "without) and `meta.json`. Regenerate this table with `tools/run_seeded.py [--all]`.\n\n"
                "| id | breaks | needs, in order to manifest | demo with change | caught by (quick tier) |\n|---|---|---|---|---|\n")
        for sid, meta, demo_res, caught in rows:
            c = "; ".join(f"{p}: {'**VIOLATION**' if v['violations'] else 'clean'} (rc {v['rc']}, {v['wall_s']} s)"
                          for p, v in caught.items()) or "-"
            f.write(f"| {sid} | {meta['property']} | {meta['needs']} | {demo_res} | {c} |\n")
    print(open(f"{ROOT}/seeded/README.md").read())


if __name__ == "__main__":
    main()
