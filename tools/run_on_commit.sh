#!/bin/bash
# usage: tools/run_on_commit.sh <repo commit> <property> [extra efsim check args...]
# Runs a quick check of <property> against a scratch worktree of /repo at <commit> (outside /repo and /verif),
# leaves the replays in /verif/replays, restores the committed evidence file and removes the worktree.
set -u
commit=$1; prop=$2; shift 2
wt=/tmp/efsim_wt_$$
git -C /repo worktree add -q "$wt" "$commit" || exit 2
cd /verif
EFSIM_REPO=$wt EFSIM_LIST_CLASSES=1 timeout 3000 /venv/bin/python -m efsim.cli check --property "$prop" --tier quick "$@"
rc=$?
git -C /repo worktree remove --force "$wt"
git -C /verif checkout -- "evidence/$prop.json" 2>/dev/null
exit $rc
