"""Helpers shared with the parent process (which never imports e-footprint)."""
import numpy as np


def from_jsonable(v):
    if v[0] == "h":
        return ("h", v[1], np.asarray(v[2], dtype=np.int64), np.asarray(v[3], dtype=float), v[4])
    if v[0] == "d":
        return ("d", {k_: from_jsonable(x) for k_, x in v[1].items()})
    return tuple(v)
