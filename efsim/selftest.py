"""Self-tests of the simulator itself: determinism (same seed => same event log, bit-exact value digests,
in fresh interpreters, at several worker counts; another hash seed may only change what the library's set
iteration changes) and sensitivity (see tools/sensitivity.py)."""
import json
import os
import sys

from efsim import driver

ALL = ["C01", "C05", "C07", "C08", "C13", "C14", "C15", "C16", "C18", "C19"]


def _logs(prop, seed, runs, workers, hashseed, nops=8):
    procs = driver.spawn_workers(prop, seed, runs, nops, workers, "quick", digests=True, fixed_hashseed=hashseed)
    results, problems = driver.collect(procs, "quick")
    logs = {r["index"]: {"events": r.get("events"), "ended": r["ended"], "ops": r["op_kinds"],
                         "violation": (r.get("violation") or {}).get("oracle")} for r in results}
    return logs, problems


def determinism(prop, seed, runs):
    props = ALL if prop in ("all", None) else [prop]
    bad = 0
    report = {}
    for p in props:
        n = min(runs, 32) if p in ("C19", "C07") else runs
        a, pa = _logs(p, seed, n, 16, 12345)
        b, pb = _logs(p, seed, n, 4, 12345)
        c, pc = _logs(p, seed, n, 16, 777)
        same_ab = sum(1 for i in a if a.get(i) == b.get(i))
        diverged = [i for i in a if a.get(i) != b.get(i)]
        # under another hash seed the op-kind sequences must be identical up to the first outcome difference
        prefix_ok = 0
        for i in a:
            ea, ec = a[i]["events"] or [], (c.get(i) or {}).get("events") or []
            ok = True
            for x, y in zip(ea, ec):
                if x[1] != y[1]:
                    ok = False
                    break
                if x[2:] != y[2:]:
                    break          # outcomes may differ from here on (set order), the generator may then diverge
            prefix_ok += ok
        same_ac = sum(1 for i in a if a.get(i) == c.get(i))
        report[p] = {"runs": len(a), "identical_16_vs_4_workers": same_ab, "diverged": diverged[:5],
                     "identical_under_other_hashseed": same_ac, "generator_prefix_consistent": prefix_ok,
                     "problems": (pa + pb + pc)[:2]}
        print(p, json.dumps(report[p]))
        if same_ab != len(a) or prefix_ok != len(a) or pa or pb or pc:
            bad += 1
    os.makedirs(os.path.join(driver.ROOT, "evidence"), exist_ok=True)
    json.dump(report, open(os.path.join(driver.ROOT, "evidence", "selftest_determinism.json"), "w"), indent=1)
    return 1 if bad else 0
