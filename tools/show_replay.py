#!/venv/bin/python
import json,sys
for path in sys.argv[1:]:
    rp=json.load(open(path))
    sp=rp["header"]["spec"]
    print("===", path, "hashseed", rp.get("hashseed"), "salt", rp["header"]["salt"])
    print("objs:", " ".join(f"{n}:{o['cls']}" for n,o in sp["objs"].items()))
    for n,o in sp["objs"].items():
        links={a:v[1] for a,v in o["attrs"].items() if v and v[0] in("ref","refs")}
        if links: print("   ",n,links)
    for op in rp["ops"]:
        s=json.dumps(op)
        print("  op:", s if len(s)<600 else s[:600]+"...")
    print("  expected:", rp.get("expected"))
    print("  detail:", (rp.get("detail") or "")[:500])
