"""Minimise a failing history (ddmin over ops, then topology shrinking) while the same violation class
persists, and write the replay file.  Runs as `python -m efsim.minimise` under the recorded hash seed.
"""
import argparse
import copy
import json
import os
import sys
import time


def matches(v, expected):
    if v is None:
        return False
    if v.oracle != expected["oracle"]:
        return False
    if expected.get("where") and not (set(v.where) & set(expected["where"])):
        return False
    return True


class Minimiser:
    def __init__(self, prop, cand, budget_s=240):
        from efsim.monitors import MONITORS
        self.prop = prop
        self.mon = MONITORS[prop]
        self.header = cand["header"]
        self.ops = cand["ops"]
        self.opts = cand.get("opts", {})
        self.expected = cand["expected"]
        self.deadline = time.time() + budget_s
        self.tests = 0
        self.last_violation = None

    def fails(self, ops, header=None):
        from efsim import runner
        self.tests += 1
        res = runner.run(self.prop, self.mon, ops=ops, header=header or self.header, opts=self.opts)
        # (enumeration runs go on after a violation: the expected class may be any of the collected ones)
        for v in (res.collected or [res.violation]):
            if matches(v, self.expected):
                self.last_violation = v
                return True
        return False

    def out_of_time(self):
        return time.time() > self.deadline

    def ddmin(self, ops):
        # the failing op is the last executed one: drop everything after it first
        n = 2
        while len(ops) >= 2 and not self.out_of_time():
            chunk = max(1, len(ops) // n)
            reduced = False
            for start in range(0, len(ops), chunk):
                cand = ops[:start] + ops[start + chunk:]
                if cand and self.fails(cand):
                    ops = cand
                    n = max(n - 1, 2)
                    reduced = True
                    break
                if self.out_of_time():
                    break
            if not reduced:
                if chunk == 1:
                    break
                n = min(n * 2, len(ops))
        return ops

    def shrink_spec(self, ops):
        header = self.header
        spec = header["spec"]
        for name in reversed(list(spec["order"])):
            if self.out_of_time():
                break
            if spec["objs"][name]["cls"] == "System":
                continue
            sp = copy.deepcopy(spec)
            # refuse if a scalar link points to it
            blocked = False
            for n, o in sp["objs"].items():
                for a, v in o["attrs"].items():
                    if v is not None and v[0] == "ref" and v[1] == name:
                        blocked = True
            if blocked:
                continue
            for n, o in sp["objs"].items():
                for a, v in o["attrs"].items():
                    if v is not None and v[0] == "refs" and name in v[1]:
                        o["attrs"][a] = ["refs", [x for x in v[1] if x != name]]
            del sp["objs"][name]
            sp["order"].remove(name)
            if any(o["cls"] == "UsagePattern" and not o["attrs"]["devices"][1] for o in sp["objs"].values()):
                continue
            h2 = dict(header)
            h2["spec"] = sp
            try:
                if self.fails(ops, h2):
                    header = h2
                    spec = sp
            except Exception:
                continue
        self.header = header
        return header

    def run(self):
        ops = list(self.ops)
        if not self.fails(ops):
            return None
        # truncate after the failing step
        step = self.last_violation.step
        if step is not None and step >= 0 and step + 1 < len(ops):
            if self.fails(ops[:step + 1]):
                ops = ops[:step + 1]
        if step == -1 and self.fails([]):
            ops = []
        ops = self.ddmin(ops)
        self.shrink_spec(ops)
        ops = self.ddmin(ops)
        assert self.fails(ops)
        return ops


def main():
    ap = argparse.ArgumentParser()
    ap.add_argument("--property", required=True)
    ap.add_argument("--cand", required=True)
    ap.add_argument("--out", required=True)
    ap.add_argument("--budget", type=int, default=240)
    a = ap.parse_args()
    sys.path.insert(0, os.path.dirname(os.path.dirname(os.path.abspath(__file__))))
    from efsim import env
    env.setup()
    cand = json.load(open(a.cand))
    m = Minimiser(a.property, cand, a.budget)
    ops = m.run()
    if ops is None:
        print(json.dumps({"reproduced": False}))
        return
    v = m.last_violation
    rp = {"property": a.property, "header": m.header, "ops": ops, "hashseed": cand.get("hashseed"),
          "opts": cand.get("opts", {}), "expected": v.klass(), "detail": v.detail,
          "minimised_from_ops": len(cand["ops"]), "minimiser_tests": m.tests, "code": env.code_fingerprint()}
    with open(a.out, "w") as f:
        json.dump(rp, f, indent=1)
    print(json.dumps({"reproduced": True, "ops": len(ops), "tests": m.tests, "klass": v.klass()}))


if __name__ == "__main__":
    main()
