"""Identity snapshot of a live world: "exactly as it was" (C05, C14) means the very same value objects,
the same link targets and the same dependency edges (as sets), not merely equal numbers.

The snapshot keeps references to every object it saw, so Python identities stay meaningful.
"""
from efsim import compare as C

# book-keeping attributes that a simulation / an update legitimately touches (DESIGN 2.5)
BOOKKEEPING = {"contextual_modeling_obj_containers", "previous_change", "all_changes", "simulation",
               "previous_total_energy_footprints_sum_over_period",
               "previous_total_fabrication_footprints_sum_over_period", "trigger_modeling_updates"}


def is_current(x):
    """x is attached and is the value (or a dict entry of the value) its container holds at its attribute."""
    cont, attr = x.modeling_obj_container, x.attr_name_in_mod_obj_container
    if cont is None or attr is None:
        return False
    held = cont.__dict__.get(attr)
    if held is x:
        return True
    if isinstance(held, dict):
        return any(e is x for e in held.values())
    return False


def _edge_set(xs):
    """Edges as a set of node ids (dict entries share the id of their dict: that is the graph users see and
    export) plus the number of references that are not current (detached or superseded objects)."""
    ids, stale = set(), 0
    for x in xs:
        if is_current(x):
            ids.add(x.id)
        else:
            stale += 1
    return frozenset(ids), stale


def _edges(v):
    return _edge_set(getattr(v, "direct_ancestors_with_id", [])), _edge_set(getattr(v, "direct_children_with_id", []))


def snapshot(world, graph=True):
    from efootprint.abstract_modeling_classes.explainable_object_base_class import ExplainableObject
    from efootprint.abstract_modeling_classes.explainable_object_dict import ExplainableObjectDict
    from efootprint.abstract_modeling_classes.list_linked_to_modeling_obj import ListLinkedToModelingObj
    from efootprint.abstract_modeling_classes.contextual_modeling_object_attribute import \
        ContextualModelingObjectAttribute
    snap = {}
    pins = []

    def rec_value(key, v, owner, attr):
        pins.append(v)
        entry = {"ref": v, "norm": C.norm(v), "attached": v.modeling_obj_container is owner,
                 "attr": v.attr_name_in_mod_obj_container, "label": v.label,
                 "source": (v.source.name, v.source.link) if getattr(v, "source", None) is not None else None}
        if graph:
            entry["anc"], entry["ch"] = _edges(v)
            pins.extend(v.direct_ancestors_with_id)
            pins.extend(v.direct_children_with_id)
        snap[key] = entry

    for name, obj in world.objs.items():
        for attr, v in obj.__dict__.items():
            if attr in BOOKKEEPING:
                continue
            if isinstance(v, ExplainableObjectDict):
                pins.append(v)
                snap[(name, attr)] = {"keys": sorted(k if isinstance(k, str) else k.name for k in v.keys()),
                                      "attached": v.modeling_obj_container is obj}
                for k, e in v.items():
                    rec_value((name, attr, k if isinstance(k, str) else k.name), e, obj, attr)
            elif isinstance(v, ExplainableObject):
                rec_value((name, attr), v, obj, attr)
            elif isinstance(v, ListLinkedToModelingObj):
                pins.append(v)
                snap[(name, attr)] = {"targets": [w._value for w in v], "attached": v.modeling_obj_container is obj,
                                      "wrappers_attached": all(w.modeling_obj_container is obj for w in v)}
            elif isinstance(v, ContextualModelingObjectAttribute):
                pins.append(v)
                snap[(name, attr)] = {"target": v._value, "attached": v.modeling_obj_container is obj}
            elif isinstance(v, (str, int, float)) or v is None:
                snap[(name, attr)] = {"plain": v}
            else:
                snap[(name, attr)] = {"other": id(v)}
                pins.append(v)
        snap[(name, "<containers>")] = {"containers": frozenset(id(c) for c in obj.modeling_obj_containers)}
        pins.extend(obj.modeling_obj_containers)
    return snap, pins


def diff(before, after):
    """[(key, reason)] — identity first, then value, links, graph edges."""
    out = []
    for k in sorted(before.keys() | after.keys(), key=str):
        a, b = before.get(k), after.get(k)
        if a is None or b is None:
            out.append((k, "attribute appeared" if a is None else "attribute disappeared"))
            continue
        if "ref" in a or "ref" in b:
            if "ref" not in a or "ref" not in b:
                out.append((k, "kind of value changed"))
                continue
            if a["ref"] is not b["ref"]:
                ok, why = C.phys_equal(a["norm"], b["norm"])
                out.append((k, "value object replaced" + ("" if ok else f" and value differs: {why}")))
                continue
            ok, why = C.phys_equal(a["norm"], b["norm"], rtol=1e-12)
            if not ok:
                # (an in-place unit conversion may change the last bits; the physical value may not change)
                out.append((k, f"same object, value mutated: {why}"))
            elif a["attached"] != b["attached"] or a["attr"] != b["attr"]:
                out.append((k, "value object no longer attached to its attribute"))
            elif a["label"] != b["label"] or a["source"] != b["source"]:
                out.append((k, "label or source changed"))
            elif "anc" in a and "anc" in b and a["anc"] != b["anc"]:
                out.append((k, f"dependency graph: ancestors changed ({sorted(a['anc'][0] ^ b['anc'][0])[:3]}, "
                               f"non-current references {a['anc'][1]} -> {b['anc'][1]})"))
            elif "ch" in a and "ch" in b and a["ch"] != b["ch"]:
                out.append((k, f"dependency graph: children changed ({sorted(a['ch'][0] ^ b['ch'][0])[:3]}, "
                               f"non-current references {a['ch'][1]} -> {b['ch'][1]})"))
        elif "targets" in a:
            if "targets" not in b or len(a["targets"]) != len(b["targets"]) or any(
                    x is not y for x, y in zip(a["targets"], b["targets"])):
                out.append((k, "list link content changed"))
            elif a["attached"] != b["attached"] or a["wrappers_attached"] != b["wrappers_attached"]:
                out.append((k, "list no longer attached to its object"))
        elif "target" in a:
            if "target" not in b or a["target"] is not b["target"]:
                out.append((k, "link re-pointed"))
            elif a["attached"] != b["attached"]:
                out.append((k, "link wrapper no longer attached"))
        elif "keys" in a:
            if a != b:
                out.append((k, f"dict keys/attachment changed {a} -> {b}"))
        elif a != b:
            out.append((k, f"{a} -> {b}"))
    return out
