"""Property monitors (one per claimed property).  Each enables only its own oracles."""
import copy

from efsim import spec as S, compare as C, opgen
from efsim.runner import BaseMonitor, Violation, op_kind


def totals(system):
    return {"energy": C.norm(system.total_energy_footprint_sum_over_period),
            "fabrication": C.norm(system.total_fabrication_footprint_sum_over_period)}


def reference_world(sim):
    """What a system freshly built from the same final inputs computes (same keyed ids as the live world)."""
    return S.build_world(sim.spec, sim.salt)


class C01(BaseMonitor):
    """Incremental recomputation equals recomputation from scratch."""
    prop = "C01"

    def on_start(self):
        self.initial_totals = totals(self.sim.world.system)
        self.check_reference(-1, {"op": "initial"})
        self.prev_snapshot = None

    def next_op(self, i):
        return opgen.gen_edit(self.k.rng("op", i), self.sim.spec, self.cfg, i)

    def step(self, i, op):
        sim = self.sim
        system = sim.world.system
        in_closure_before = set(S.closure(sim.spec))
        spec_before = copy.deepcopy(sim.spec["objs"])
        before = totals(system) if op["op"] in ("set", "list", "group") else None
        status, ret = self.execute(op)
        if status == "skip":
            return "skip"
        if status == "hang":
            raise Violation("C01", "hang", {ret.site}, f"accepted edit does not return (> watchdog) in {ret.site}",
                            i, op_kind(op))
        if status == "raised":
            # not an accepted edit: C01 says nothing; the live world may be half-updated, so the run ends
            self.res.count("ended_on_raise:" + type(ret).__name__)
            self.stop = "op_raised"
            return "raised"
        self.check_reference(i, op)
        self.check_before_after_reference(i, op, before, spec_before, in_closure_before)
        return "ok"

    def check_reference(self, i, op):
        sim = self.sim
        try:
            ref = reference_world(sim)
        except (ValueError, PermissionError) as e:
            # the library refuses to build this description from scratch: outside the envelope (W4)
            self.res.count("left_envelope:" + type(e).__name__)
            self.stop = "left_envelope"
            return
        except Exception as e:
            # not a refusal but a crash (KeyError, AttributeError, ...) on a description that the live model
            # accepted edit by edit: there is nothing the live values could be equal to
            raise Violation("C01", "fresh_build_crash", {type(e).__name__},
                            f"building the final inputs from scratch crashes: {type(e).__name__}: {str(e)[:200]}",
                            i, op_kind(op))
        names = S.closure(sim.spec)
        live = C.calc_snapshot(sim.world, names)
        fresh = C.calc_snapshot(ref, names)
        diffs = C.diff_snapshots(live, fresh, self.cls_of)
        self.res.count("values_compared", len(live))
        if diffs:
            raise Violation("C01", "live_vs_fresh", self.where_of(diffs), self.fmt(diffs), i, op_kind(op))

    def check_before_after_reference(self, i, op, before, spec_before, in_closure_before):
        sim = self.sim
        system = sim.world.system
        now_initial = {"energy": C.norm(system.initial_total_energy_footprints_sum_over_period),
                       "fabrication": C.norm(system.initial_total_fabrication_footprints_sum_over_period)}
        for key in ("energy", "fabrication"):
            ok, why = C.phys_equal(now_initial[key], self.initial_totals[key])
            if not ok:
                raise Violation("C01", "initial_totals", {f"System.initial_total_{key}"}, why, i, op_kind(op))
        if before is None:
            return
        touched = [ch["obj"] for ch in (op["changes"] if op["op"] == "group" else [op])]
        effective = any(spec_before.get(n) != sim.spec["objs"].get(n) for n in touched)
        if not effective or not any(n in in_closure_before for n in touched):
            return
        prev = {"energy": C.norm(system.previous_total_energy_footprints_sum_over_period),
                "fabrication": C.norm(system.previous_total_fabrication_footprints_sum_over_period)}
        for key in ("energy", "fabrication"):
            ok, why = C.phys_equal(prev[key], before[key])
            if not ok:
                raise Violation("C01", "previous_totals", {f"System.previous_total_{key}"}, why, i, op_kind(op))
        self.res.count("before_after_checked")


MONITORS = {"C01": C01}
