"""Normalised value snapshots and the physical comparator.

norm(value) turns any library value into plain data in base units; phys_equal compares two of them
(kind, dimension, hour-by-hour values on the union of timestamps with missing = 0, with a tolerance
nine orders of magnitude tighter than any real staleness).  Nothing here mutates library objects.
"""
import json
import hashlib

import numpy as np

RTOL = 1e-9
_FACTORS = {}


def _factor(unit):
    key = str(unit)
    f = _FACTORS.get(key)
    if f is None:
        from efootprint.constants.units import u
        q = u.Quantity(1.0, unit).to_base_units()
        # pint defines the bit as a dimensionless base unit (1 bit == 1): fold it, so that "bit / second" and
        # "1 / second" are one dimension, as they are for the library
        exp = dict(q.units._units).get("bit")
        if exp:
            q = q.to(q.units / (u.bit ** exp))
        f = (float(q.magnitude), str(q.units))
        _FACTORS[key] = f
    return f


def norm(v, name_of_key=None):
    from efootprint.abstract_modeling_classes.explainable_objects import (
        EmptyExplainableObject, ExplainableQuantity, ExplainableHourlyQuantities)
    from efootprint.abstract_modeling_classes.explainable_object_dict import ExplainableObjectDict
    from efootprint.abstract_modeling_classes.explainable_object_base_class import ExplainableObject
    if v is None:
        return ("none",)
    if isinstance(v, EmptyExplainableObject):
        return ("e",)
    if isinstance(v, ExplainableQuantity):
        f, units = _factor(v.value.units)
        return ("q", float(v.value.magnitude) * f, units)
    if isinstance(v, ExplainableHourlyQuantities):
        f, units = _factor(v.unit)
        idx = v.value.index
        tzflag = idx.tz is not None
        if tzflag:
            idx = idx.tz_convert("UTC").tz_localize(None)
        ns = idx.values.astype("datetime64[ns]").astype(np.int64)
        vals = np.asarray(v.value["value"].values._data, dtype=float) * f
        return ("h", tzflag, ns, vals, units)
    if isinstance(v, ExplainableObjectDict) or isinstance(v, dict):
        out = {}
        for k, val in v.items():
            kn = k if isinstance(k, str) else k.name
            out[kn] = norm(val)
        return ("d", out)
    if isinstance(v, ExplainableObject):
        val = v.value
        import datetime as _dt
        if isinstance(val, _dt.tzinfo):
            # one canonical form whatever the implementation (pytz, zoneinfo, datetime.timezone)
            name = getattr(val, "zone", None) or getattr(val, "key", None)
            if name is None:
                off = val.utcoffset(None)
                name = "UTC" if off is not None and off.total_seconds() == 0 else f"offset:{off.total_seconds() / 60 if off is not None else val!r}"
            return ("o", "tz:" + str(name))
        try:
            return ("o", json.dumps(val, sort_keys=True, default=str))
        except Exception:
            return ("o", str(val))
    raise AssertionError(f"cannot normalise {type(v)}")


def _is_zero(a):
    if a[0] in ("e", "none"):
        return True
    if a[0] == "q":
        return a[1] == 0.0
    if a[0] == "h":
        return not np.any(a[3])
    return False


def phys_equal(a, b, rtol=RTOL, atol=0.0):
    """(equal?, reason).  Empty == all-zero series == zero quantity (library convention: missing = 0)."""
    if a[0] in ("e", "none") or b[0] in ("e", "none"):
        ok = _is_zero(a) and _is_zero(b)
        if not ok and atol:
            other = b if a[0] in ("e", "none") else a
            if other[0] == "q" and abs(other[1]) <= atol:
                ok = True
            if other[0] == "h" and np.all(np.abs(other[3]) <= atol):
                ok = True
        return ok, ("" if ok else f"kind {a[0]} vs {b[0]}")
    if a[0] != b[0]:
        return False, f"kind {a[0]} vs {b[0]}"
    if a[0] == "q":
        if a[2] != b[2]:
            return False, f"dimension {a[2]} vs {b[2]}"
        tol = rtol * max(abs(a[1]), abs(b[1])) + atol
        ok = abs(a[1] - b[1]) <= tol
        return ok, ("" if ok else f"{a[1]!r} vs {b[1]!r}")
    if a[0] == "h":
        if a[4] != b[4]:
            return False, f"dimension {a[4]} vs {b[4]}"
        if a[1] != b[1]:
            return False, "tz-aware vs naive index"
        if len(a[2]) == len(b[2]) and np.array_equal(a[2], b[2]):
            x, y = a[3], b[3]
            ts = a[2]
        else:
            ts = np.union1d(a[2], b[2])
            x = np.zeros(len(ts))
            y = np.zeros(len(ts))
            x[np.searchsorted(ts, a[2])] = a[3]
            y[np.searchsorted(ts, b[2])] = b[3]
        if not (np.all(np.isfinite(x)) and np.all(np.isfinite(y))):
            same = np.array_equal(np.isnan(x), np.isnan(y)) and np.array_equal(
                np.nan_to_num(x, nan=0.0), np.nan_to_num(y, nan=0.0))
            return same, ("" if same else "non-finite values differ")
        scale = max(float(np.max(np.abs(x))) if len(x) else 0.0, float(np.max(np.abs(y))) if len(y) else 0.0)
        tol = rtol * np.maximum(np.abs(x), np.abs(y)) + rtol * scale + atol
        bad = np.abs(x - y) > tol
        if np.any(bad):
            i = int(np.argmax(bad))
            return False, (f"{int(np.sum(bad))}/{len(ts)} hours differ, first at "
                           f"{np.datetime64(int(ts[i]), 'ns')}: {x[i]!r} vs {y[i]!r}")
        return True, ""
    if a[0] == "d":
        if set(a[1]) != set(b[1]):
            return False, f"dict keys {sorted(a[1])} vs {sorted(b[1])}"
        for k in a[1]:
            ok, why = phys_equal(a[1][k], b[1][k], rtol, atol)
            if not ok:
                return False, f"[{k}] {why}"
        return True, ""
    if a[0] == "o":
        ok = a[1] == b[1]
        return ok, ("" if ok else "object values differ")
    raise AssertionError(a[0])


def calc_snapshot(world, names):
    """{(name, attr): norm(value)} over the calculated attributes of the named objects."""
    out = {}
    for n in names:
        obj = world.objs[n]
        for attr in obj.calculated_attributes:
            out[(n, attr)] = norm(getattr(obj, attr, None))
    return out


def input_snapshot(world, spec, names):
    """{(name, attr): norm(value)} over the value-typed inputs named by the spec."""
    out = {}
    for n in names:
        obj = world.objs[n]
        for attr, v in spec["objs"][n]["attrs"].items():
            if v is None or v[0] in ("ref", "refs", "str"):
                continue
            if attr in obj.calculated_attributes:
                continue
            out[(n, attr)] = norm(getattr(obj, attr, None))
    return out


ATOL = {("System", "total_footprint"): 1.01e-4}  # library rounds the total to 4 decimals (kg)


def diff_snapshots(a, b, cls_of=None, only=None):
    """[(key, reason)] for keys whose values are not phys_equal (keys missing on one side included)."""
    out = []
    for k in a.keys() | b.keys():
        if only is not None and k not in only:
            continue
        if k not in a or k not in b:
            out.append((k, "missing on one side"))
            continue
        atol = 0.0
        if cls_of is not None:
            atol = ATOL.get((cls_of(k[0]), k[1]), 0.0)
        ok, why = phys_equal(a[k], b[k], atol=atol)
        if not ok:
            out.append((k, why))
    return sorted(out, key=lambda t: t[0])


def digest(snapshot):
    """Bit-exact digest of a snapshot (determinism self-test; never used by an oracle)."""
    h = hashlib.blake2b(digest_size=12)

    def feed(x):
        if isinstance(x, tuple):
            for e in x:
                feed(e)
        elif isinstance(x, dict):
            for k in sorted(x):
                h.update(str(k).encode())
                feed(x[k])
        elif isinstance(x, np.ndarray):
            h.update(x.tobytes())
        elif isinstance(x, float):
            h.update(np.float64(x).tobytes())
        else:
            h.update(repr(x).encode())
    for k in sorted(snapshot):
        h.update(repr(k).encode())
        feed(snapshot[k])
    return h.hexdigest()
