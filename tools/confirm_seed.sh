#!/bin/bash
# usage: tools/confirm_seed.sh <srcdir with patch.diff and demo.py>
# Confirms, in a fresh scratch worktree of /repo HEAD: demo passes without the change, fails with it, and the pinned
# test suite still passes with it.  Prints one summary line.  The worktree is removed afterwards.
src=$1
wt=/tmp/efsim_confirm_$$
git -C /repo worktree add -q "$wt" HEAD || exit 2
cd "$wt"
cp "$src/demo.py" "$wt/demo_seed.py"; PYTHONPATH=$wt timeout 900 /venv/bin/python "$wt/demo_seed.py" > /tmp/confirm_without_$$.log 2>&1; rc0=$?
git apply "$src/patch.diff"; ap=$?
PYTHONPATH=$wt timeout 900 /venv/bin/python "$wt/demo_seed.py" > /tmp/confirm_with_$$.log 2>&1; rc1=$?
base=$(timeout 1200 /verif/tools/baseline_check.py "$wt" | head -1)
files=$(git diff --stat -- efootprint | tail -1)
cd /; git -C /repo worktree remove --force "$wt"
echo "apply=$ap demo_without=$rc0 demo_with=$rc1 tests: $base | $files"
tail -3 /tmp/confirm_with_$$.log | cut -c1-200
rm -f /tmp/confirm_without_$$.log /tmp/confirm_with_$$.log
