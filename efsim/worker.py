"""Worker process: executes a batch of runs (or one replay) and writes one JSON line per run.

Only ever executed as `python -m efsim.worker` (never imported), in a fresh interpreter whose
PYTHONHASHSEED was pinned by the parent.
"""
import argparse
import faulthandler
import json
import os
import sys
import time


def summarise(res, wall, hashseed):
    from efsim.runner import op_kind
    out = {
        "index": res.header.get("index"), "ended": res.ended, "n_ops": len(res.ops), "stats": res.stats,
        "topo_sig": res.topo_sig, "op_kinds": [op_kind(o) for o in res.ops],
        "statuses": [e[2] for e in res.events],
        "violation": res.violation.to_json() if res.violation else None,
        "harness_error": res.harness_error, "wall": round(wall, 3), "hashseed": hashseed,
        "extra": getattr(res, "extra", {}),
    }
    return out


def main():
    ap = argparse.ArgumentParser()
    ap.add_argument("--property", required=True)
    ap.add_argument("--seed", type=int, default=0)
    ap.add_argument("--indices", default="0:1")
    ap.add_argument("--nops", type=int, default=10)
    ap.add_argument("--out", required=True)
    ap.add_argument("--replay", default=None, help="replay file: run it once, print the outcome class as JSON")
    ap.add_argument("--digests", action="store_true")
    ap.add_argument("--opts", default="{}")
    ap.add_argument("--hard-timeout", type=int, default=3600)
    a = ap.parse_args()
    faulthandler.enable()
    faulthandler.dump_traceback_later(a.hard_timeout, exit=True)
    hashseed = os.environ.get("PYTHONHASHSEED", "random")
    sys.path.insert(0, os.path.dirname(os.path.dirname(os.path.abspath(__file__))))
    from efsim import env
    env.setup()
    from efsim import runner
    from efsim.monitors import MONITORS
    mon = MONITORS[a.property]
    opts = json.loads(a.opts)
    with open(a.out, "w") as out:
        if a.replay:
            rp = json.load(open(a.replay))
            wu = rp.get("warmup")
            if wu:
                # state kept by the library across models: re-execute what this interpreter had executed before
                for idx in range(wu["indices"][0], wu["indices"][1]):
                    runner.run(a.property, mon, seed=wu["seed"], index=idx, n_ops=wu["nops"], opts=wu.get("opts") or {})
            t = time.time()
            res = runner.run(a.property, mon, ops=rp["ops"], header=rp["header"], digests=a.digests,
                             opts=rp.get("opts", opts))
            s = summarise(res, time.time() - t, hashseed)
            s["events"] = res.events
            exp = rp.get("expected")
            if exp and len(res.collected) > 1:
                # enumeration runs go on after a violation: report the one this replay file is about, if it is there
                for v in res.collected:
                    if v.oracle == exp.get("oracle") and (not exp.get("where") or set(v.where) & set(exp["where"])):
                        s["violation"] = v.to_json()
                        break
            out.write(json.dumps(s) + "\n")
            return
        lo, hi = (int(x) for x in a.indices.split(":"))
        for idx in range(lo, hi):
            t = time.time()
            res = runner.run(a.property, mon, seed=a.seed, index=idx, n_ops=a.nops, digests=a.digests, opts=opts)
            s = summarise(res, time.time() - t, hashseed)
            if a.digests:
                s["events"] = res.events
            if res.violation is not None or res.harness_error is not None:
                s["replay"] = {"header": res.header,
                               "ops": res.ops[:(res.violation.step or 0) + 1] if res.collected else res.ops,
                               "hashseed": hashseed, "opts": opts,
                               "expected": res.violation.klass() if res.violation else None}
            if len(res.collected) > 1:
                # enumeration mode: one entry per violation, each with the prefix of the history that reaches it
                s["more"] = [{"violation": v.to_json(),
                              "replay": {"header": res.header, "ops": res.ops[:(v.step or 0) + 1], "hashseed": hashseed,
                                         "opts": opts, "expected": v.klass()}} for v in res.collected[1:]]
            if idx == lo and res.violation is None and res.harness_error is None:
                s["sample"] = {"cfg": res.header.get("cfg"), "ops": res.ops[:6]}
            out.write(json.dumps(s) + "\n")
            out.flush()


if __name__ == "__main__":
    main()
