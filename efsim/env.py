"""Seams between the simulator and the library under test.

* the library is imported from the working tree named by EFSIM_REPO (default /repo), never from a copy;
* `modeling_object.uuid` (the module attribute through which ModelingObject.__init__ draws its random
  id) is replaced by a keyed generator owned by the simulator;
* the library logger is silenced (it is never read by decisions);
* matplotlib is forced to the Agg backend; HTML / PNG writers get a per-run temp dir.
Nothing else of the library is replaced.
"""
import os
import sys
import logging

REPO = os.environ.get("EFSIM_REPO", "/repo")
_ready = False


class KeyedUUID:
    """Stands in for the `uuid` module inside modeling_object / graph_tools."""

    def __init__(self):
        self.salt = "unset"
        self.pending_name = None
        self.anon = 0
        self.issued = 0

    def uuid4(self):
        from efsim.prng import hexid
        self.issued += 1
        if self.pending_name is not None:
            name = self.pending_name
            self.pending_name = None
            return hexid(self.salt, "id", name, n=32)
        self.anon += 1
        return hexid(self.salt, "anon", self.anon, n=32)


IDS = KeyedUUID()


def setup():
    global _ready
    if _ready:
        return
    if REPO not in sys.path:
        sys.path.insert(0, REPO)
    os.environ.setdefault("MPLBACKEND", "Agg")
    os.environ.pop("WRITE_EFOOTPRINT_LOGS", None)
    import warnings
    warnings.simplefilter("ignore")
    import efootprint.logger as eflog
    eflog.logger.setLevel(logging.CRITICAL)
    for h in eflog.logger.handlers:
        h.setLevel(logging.CRITICAL)
    import efootprint
    assert os.path.realpath(efootprint.__file__).startswith(os.path.realpath(REPO)), (
        f"efootprint imported from {efootprint.__file__}, expected under {REPO}")
    # importing all classes triggers the (slow, offline) boaviztapi import once per process
    import efootprint.core.all_classes_in_order  # noqa
    import efootprint.abstract_modeling_classes.modeling_object as mo
    import efootprint.utils.graph_tools as gt
    mo.uuid = IDS
    if hasattr(gt, "uuid"):
        gt.uuid = IDS
    _install_recomputation_observer()
    _ready = True


FINGERPRINTS = []      # one entry per ModelingUpdate that recomputed something: hash of the recomputation order


def _install_recomputation_observer():
    """Observation only: wraps ModelingUpdate.recompute_attributes to record *which* attributes a real update
    schedules and in which order (the 'interleavings reached' measure of the evidence). Behaviour is unchanged."""
    from efootprint.abstract_modeling_classes.modeling_update import ModelingUpdate
    from efsim.prng import hexid
    original = ModelingUpdate.recompute_attributes

    def observed(self):
        try:
            order = tuple(f"{type(v.modeling_obj_container).__name__}.{v.attr_name_in_mod_obj_container}"
                          for v in self.values_to_recompute)
            if order:
                FINGERPRINTS.append(hexid(order, n=10))
        except Exception:
            pass
        return original(self)

    ModelingUpdate.recompute_attributes = observed


def set_salt(salt):
    IDS.salt = salt
    IDS.pending_name = None
    IDS.anon = 0


def code_fingerprint():
    """git tree hash of the repo HEAD plus digest of the dirty diff (recorded in replay headers)."""
    import subprocess
    import hashlib
    try:
        head = subprocess.run(["git", "-C", REPO, "rev-parse", "HEAD"], capture_output=True, text=True).stdout.strip()
        diff = subprocess.run(["git", "-C", REPO, "diff", "HEAD", "--", "efootprint"], capture_output=True).stdout
        return {"head": head, "dirty": hashlib.sha1(diff).hexdigest()[:12] if diff else None}
    except Exception as e:  # pragma: no cover
        return {"head": None, "dirty": None, "error": str(e)}
