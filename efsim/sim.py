"""The simulated world: a live model driven through the public API, its spec, and the operation executor.

An *op* is a concrete JSON dict (no generator is needed to replay it).  `Sim.apply(op)` executes it on the
live world through the public API only and, iff the library accepted it, mirrors it on the spec.
"""
import copy

from efsim import env, spec as S
from efsim.spec import make_value


class OpSkipped(Exception):
    """The op refers to objects that no longer exist (happens only during minimisation)."""


class Sim:
    def __init__(self, spec, salt, build=True):
        env.setup()
        self.salt = salt
        self.spec = S.clone(spec)
        self.world = S.build_world(self.spec, salt) if build else None
        self.n_updates = 0

    # -- helpers ---------------------------------------------------------------------------------
    def obj(self, name):
        if name not in self.world.objs or name not in self.spec["objs"]:
            raise OpSkipped(name)
        return self.world.objs[name]

    def sattrs(self, name):
        return self.spec["objs"][name]["attrs"]

    def _value(self, v, src=None, label=None):
        if v[0] == "none":
            return None
        return make_value(v, src, label)

    def _link_value(self, v):
        if v[0] == "ref":
            return self.obj(v[1])
        return [self.obj(n) for n in v[1]]

    def _new_for(self, change):
        v = change["value"]
        if v[0] in ("ref", "refs"):
            return self._link_value(v)
        return self._value(v, change.get("src"), change.get("label"))

    def _mirror(self, change):
        """Record an accepted change of one attribute in the spec."""
        name, attr, v = change["obj"], change["attr"], change["value"]
        o = self.spec["objs"][name]
        if v[0] == "none":
            v = ["e"]
        o["attrs"][attr] = copy.deepcopy(v)
        if v[0] in ("q", "s", "tz", "h"):
            if change.get("src"):
                o.setdefault("src", {})[attr] = list(change["src"])
            else:
                o.setdefault("src", {}).pop(attr, None)

    def create(self, name, cls, attrs, src=None):
        if name in self.spec["objs"]:
            raise OpSkipped(name)
        for d in S.deps_of({"attrs": attrs}):
            if d not in self.world.objs:
                raise OpSkipped(d)
        self.spec["objs"][name] = {"cls": cls, "attrs": copy.deepcopy(attrs), "src": copy.deepcopy(src or {})}
        self.spec["order"].append(name)
        try:
            S.new_object(self.world, self.spec, name)
        except Exception:
            del self.spec["objs"][name]
            self.spec["order"].remove(name)
            raise

    def forget(self, name):
        del self.spec["objs"][name]
        self.spec["order"].remove(name)
        del self.world.objs[name]

    # -- executor --------------------------------------------------------------------------------
    def apply(self, op):
        """Execute `op`.  Returns None if accepted; raises whatever the library raised otherwise.
        The spec is mirrored only for accepted ops (for compound ops: for the accepted prefix)."""
        kind = op["op"]
        fn = getattr(self, "op_" + kind)
        return fn(op)

    def op_set(self, op):
        """Single assignment obj.attr = value (quantity, categorical, hourly, link or list)."""
        o = self.obj(op["obj"])
        new = self._new_for(op)
        setattr(o, op["attr"], new)
        self._mirror(op)

    def op_group(self, op):
        from efootprint.abstract_modeling_classes.modeling_update import ModelingUpdate
        changes = []
        for ch in op["changes"]:
            o = self.obj(ch["obj"])
            changes.append([getattr(o, ch["attr"]), self._new_for(ch)])
        ModelingUpdate(changes)
        for ch in op["changes"]:
            self._mirror(ch)

    def op_list(self, op):
        """A list-mutating call on obj.attr, mirrored with the built-in list on names."""
        o = self.obj(op["obj"])
        attr, m = op["attr"], op["method"]
        lst = getattr(o, attr)
        names = list(self.sattrs(op["obj"])[attr][1])
        args = op.get("args", [])
        ret = None
        if m == "append":
            lst.append(self.obj(args[0]))
            names.append(args[0])
        elif m == "insert":
            lst.insert(args[0], self.obj(args[1]))
            names.insert(args[0], args[1])
        elif m == "extend":
            lst.extend([self.obj(n) for n in args[0]])
            names.extend(args[0])
        elif m == "iadd":
            lst += [self.obj(n) for n in args[0]]
            setattr(o, attr, lst)
            names += args[0]
        elif m == "imul":
            lst *= args[0]
            setattr(o, attr, lst)
            names *= args[0]
        elif m == "pop":
            ret = lst.pop(*args)
            names.pop(*args)
        elif m == "remove":
            target = self.obj(args[0])
            if op.get("by") == "wrapper":
                target = next((w for w in lst if w == target), target)
            lst.remove(target)
            names.remove(args[0])
        elif m == "delitem":
            del lst[args[0]]
            del names[args[0]]
        elif m == "setitem":
            lst[args[0]] = self.obj(args[1])
            names[args[0]] = args[1]
        elif m == "clear":
            lst.clear()
            names.clear()
        else:
            raise AssertionError(m)
        self.sattrs(op["obj"])[attr] = ["refs", names]
        return ret

    def op_create(self, op):
        self.create(op["name"], op["cls"], op["attrs"], op.get("src"))

    def op_compound(self, op):
        """Several ops with no oracle in between (creation + linking, removal + deletion)."""
        for sub in op["steps"]:
            self.apply(sub)

    def op_delete(self, op):
        o = self.obj(op["obj"])
        o.self_delete()
        self.forget(op["obj"])

    def op_noop(self, op):
        """Re-assign the current value of an input (equal-value edit)."""
        o = self.obj(op["obj"])
        v = self.sattrs(op["obj"])[op["attr"]]
        if v[0] in ("ref", "refs"):
            setattr(o, op["attr"], self._link_value(v))
        else:
            setattr(o, op["attr"], self._value(v, self.spec["objs"][op["obj"]].get("src", {}).get(op["attr"])))
